"""C04 - Adj-RIB-Out converges: the peer ends up with exactly the intended routes.

Runtime monitor with an independent sequential model (L1: direct, in process).

Real objects: a neighbor parsed by the real configuration parser, a real OutgoingRIB built by the production
constructor (one fresh RIB per history, installed as neighbor.rib.outgoing), Route objects parsed from text by the
real parser and passed through neighbor.resolve_self() as the API does, and a Negotiated built as Peer._establish
does from a refwire-built peer OPEN.

A *history* is a configuration (the routes of the neighbor section), a list of operations and, after every operation,
a consumption step.  Operations call the RIB methods the API commands / the reactor call:

    announce      Configuration.announce_route      -> add_to_rib(resolve_self(route))
    withdraw      Configuration.withdraw_route      -> del_from_rib(resolve_self(route)) (next hop 0.0.0.0 when absent)
    clear         Reactor.neighbor_rib_out_withdraw -> withdraw()
    refresh       Peer.resend                       -> resend(enhanced, family)
    wd-announce   command/watchdog.py               -> announce_watchdog(name)
    wd-withdraw   command/watchdog.py               -> withdraw_watchdog(name)
    reload        ParseNeighbor._init_neighbor on the shared RIB (add_to_rib_watchdog for every configured route)
                  then Peer._main: replace_reload(previous.routes, current.routes)
    restart       session loss: the live generator is abandoned, Peer._reset -> neighbor.reset_rib() (OutgoingRIB.reset()
                  runs whatever was queued), new session: empty peer table, include_withdraw False,
                  Peer._main -> replace_restart(previous, current)

Consumption mirrors Peer._send_route_updates + Protocol.new_update_generator: a message generator is created only when
there is none and pending() is true; it captures include_withdraw (False until the first generator of a session is
exhausted); every step is one wire message; exhaustion fires the flush callbacks.  Between two operations the harness
makes 0..n calls of 1..3 steps (rate-limit pace), or drains (25 per iteration pace), or the session is lost.

Route objects: AttributeCollection.watchdog()/withdraw() pop the internal attributes, so a parsed route can go through
add_to_rib_watchdog only once (as in production, where every (re)load parses new objects): every configuration load of the
harness gets a new object for the watchdog members (Session.configured).

Violation keys: C04/<class>:<pattern>, class in {stale-announcement-survives, withdrawn-route-resurrected, peer-vs-reported:*,
reported-vs-intended:*, never-drains, raises:<exception>}; the pattern is read off the delta-debugged history (operations removed,
replaced by elementary ones, consumption / configuration / session flags simplified while the same class persists).

Oracle, once drained (bounded: 3 further generator rounds): INTENDED (a sequential model of the operation list),
REPORTED (cached_routes() rendered with Route.extensive(), i.e. what `rib show out extensive` prints) and PEER
(refwire.PeerTable applying every emitted UPDATE in order, RFC 7313 stale handling between BoRR and EoRR) must be the
same table: same (family, path-id, prefix) keys, same MED tag + communities, same next hop.
"""

from __future__ import annotations

import ast
import ipaddress
import random

from vlib import exa
from vlib import refwire as rw
from vlib.mon import Result

PROPERTY = 'C04'
LEVEL = 'exploration'
RULE = (
    'histories = (configuration, operation list, consumption step after every operation, group-updates on/off, add-path on/off, '
    'fresh/mid session). ALL histories of length <= 4 (thorough: also length 5 with group-updates on) over a 2-prefix x 2-variant ipv4 universe with a 12 letter '
    'alphabet (announce x4, withdraw x2, clear, refresh, enhanced refresh, watchdog announce/withdraw, session restart) and '
    'consumption in {none, 1 step, drain} are enumerated, sharded by index; plus seeded random histories of length <= 12 over '
    '3 prefixes x 3 attribute sets x 2 next hops x {ipv4, ipv6 unicast} x path-id {1,2} (add-path sessions), with reload and '
    'restart-with-new-configuration. distinct = distinct (operation kinds in order, consumption kinds, key collision shape, session kind)'
)
ASSUMPTIONS = [
    'a fresh OutgoingRIB built with the production constructor and installed as neighbor.rib.outgoing stands for the RIB of a newly configured neighbor',
    'API/reactor call sequences are reproduced at the granularity they can interleave in production: single add_to_rib / del_from_rib '
    'calls (the API handlers yield between routes), atomic withdraw()/resend()/watchdog/replace_* calls, one wire message per generator step',
    'OutgoingRIB.reset() is only reachable through Peer._reset -> neighbor.reset_rib(), after which the live generator is gone: '
    'reset() is therefore modelled as part of the session restart (generator abandoned, peer table emptied), never followed by the old generator',
    'include_withdraw is False for the first generator of a session and True afterwards (Peer._main / _send_route_updates)',
    'watchdog semantics of the model: a group member configured with `withdraw` starts withdrawn; announce watchdog announces the members '
    'currently withdrawn, withdraw watchdog withdraws the members currently announced; API announce/withdraw/clear do not change membership state',
    'watchdog routes stay in the configuration across reloads (removing a watchdog member from the configuration is outside the workload)',
    'a peer implements RFC 7313: routes of a family not re-advertised between BoRR and EoRR are dropped at EoRR',
    'attribute equality is judged on the distinguishing tag (MED), the communities and the next hop; attribute encoding is the business of C01',
]
MANIFEST = {
    'level': 'exploration',
    'technique': 'runtime monitoring of the real OutgoingRIB + real UPDATE encoder against an independent sequential model: three tables '
    '(intended / reported cache / reference peer table fed with every emitted UPDATE) compared at quiescence; exhaustive enumeration of a '
    'small history space plus seeded random histories; delta-debugged minimal histories name the mechanism; icontract structural '
    'invariants attached from the harness as early warnings; the same kind of history played by a real helper process to the real exabgp '
    'process, peer table / intent / `rib show out` compared',
    'text': 'Operation histories (announce, withdraw, watchdog, refresh, clear, reload, session restart) interleaved with partial consumption '
    'of the update generator are run on the real Adj-RIB-Out. Once the queue has drained the table a reference peer builds from the emitted '
    'UPDATEs, the table ExaBGP reports and the table a sequential model of the history predicts must agree. All histories of length <= 4 over a '
    '2 prefix x 2 variant universe are enumerated (fault enumeration for that sub-space); longer histories over a larger universe are sampled.',
    'note': 'L1 (direct RIB + encoder, no sockets) carries the enumeration; L2 replays API histories against a live session in the virtual-clock lab where the real Peer._main consumes the RIB (peer table == reported == intended at quiescence); watchdog members are never removed from the configuration; reset() is modelled with the '
    'session loss that always accompanies it; attributes are compared on MED/communities/next hop',
}
SHARD_TIMEOUT = {'quick': 600, 'thorough': 3000}

# ----------------------------------------------------------------------------------------------------------------
# universe (written by hand, nothing comes from exabgp)
# ----------------------------------------------------------------------------------------------------------------

FAMILY = {4: (1, 1), 6: (2, 1)}
PREFIX = {
    4: ['10.0.0.0/24', '10.0.1.0/24', '10.1.0.0/16'],
    6: ['2001:db8::/48', '2001:db8:1::/48', '2001:db8:100::/40'],
}
NEXTHOP = {4: ['1.2.3.4', '1.2.3.5'], 6: ['2001::1', '2001::2']}
# attribute sets are shared between prefixes (so that several NLRI land in one attribute group); the pair (prefix, MED) is the tag
VARIANT = [
    ('med 100', 100, ()),
    ('med 101 community [65000:1]', 101, ((65000, 1),)),
    ('med 102 community [65000:1 65000:2]', 102, ((65000, 1), (65000, 2))),
]
LOCAL_AS, PEER_AS = 65000, 65001

_norm_cache: dict = {}


def norm_prefix(p: str) -> str:
    v = _norm_cache.get(p)
    if v is None:
        v = _norm_cache[p] = ipaddress.ip_network(p, strict=False).compressed
    return v


def norm_ip(a: str) -> str:
    v = _norm_cache.get(('ip', a))
    if v is None:
        v = _norm_cache[('ip', a)] = ipaddress.ip_address(a).compressed
    return v


def spec(fam, p, v, nh, pid=None, wd=None):
    """one route of the universe. key/value are the oracle's view, text is what the real parser is given"""
    afi, safi = FAMILY[fam]
    text = 'route ' + PREFIX[fam][p]
    if pid is not None:
        text += f' path-information 0.0.0.{pid}'
    text += f' next-hop {NEXTHOP[fam][nh]} {VARIANT[v][0]}'
    if wd:
        text += f' watchdog {wd[0]}' + (' withdraw' if wd[1] else '')
    return {
        'fam': fam,
        'p': p,
        'v': v,
        'nh': nh,
        'pid': pid,
        'wd': wd,
        'text': text,
        'key': (afi, safi, pid, norm_prefix(PREFIX[fam][p])),
        'value': (VARIANT[v][1], VARIANT[v][2], norm_ip(NEXTHOP[fam][nh])),
    }


def universe(kind: str, addpath: bool) -> dict:
    """-> {'routes': [spec], 'plain': [ids], 'wd': [ids], 'keys': [key], 'bare': [withdraw text per key]}"""
    routes = []
    if kind == 'small':
        for p in (0, 1):
            for v in (0, 1):
                routes.append(spec(4, p, v, 0))
        plain = list(range(len(routes)))
        routes.append(spec(4, 1, 2, 0, None, ('W0', True)))
    else:
        pids = (1, 2) if addpath else (None,)
        for fam in (4, 6):
            for p in range(3):
                for pid in pids:
                    for v in range(3):
                        for nh in range(2):
                            routes.append(spec(fam, p, v, nh, pid))
        plain = list(range(len(routes)))
        one = 1 if addpath else None
        routes.append(spec(4, 0, 0, 0, one, ('W0', False)))
        routes.append(spec(6, 1, 1, 0, one, ('W0', True)))
        routes.append(spec(4, 1, 2, 1, one, ('W1', True)))
    wd = list(range(len(plain), len(routes)))
    keys = []
    for r in routes:
        if r['key'] not in keys:
            keys.append(r['key'])
    bare = []
    for k in keys:
        fam = 4 if k[0] == 1 else 6
        orig = [r for r in routes if r['key'] == k][0]
        t = 'route ' + PREFIX[fam][orig['p']]
        if k[2] is not None:
            t += f' path-information 0.0.0.{k[2]}'
        bare.append(t)
    for i, r in enumerate(routes):
        r['id'] = i
    equiv = {}
    for i in wd:
        for j in plain:
            if routes[j]['key'] == routes[i]['key'] and routes[j]['value'] == routes[i]['value']:
                equiv[i] = j
    return {'routes': routes, 'plain': plain, 'wd': wd, 'keys': keys, 'bare': bare, 'equiv': equiv}


# ----------------------------------------------------------------------------------------------------------------
# INTENDED: the sequential model of an operation history
# ----------------------------------------------------------------------------------------------------------------


class Intended:
    def __init__(self, U):
        self.U, self.table, self.member = U, {}, {}  # member[name][key] = [route spec, '+' | '-']
        self.unspecified = set()  # keys whose intended state nobody defines (see ASSUMPTIONS): not compared with INTENDED

    def load(self, r):  # one configured route taken into account (initial load, reload)
        if r['wd']:
            m = self.member.get(r['wd'][0], {}).get(r['key'])
            if m is not None and m[1] != ('-' if r['wd'][1] else '+'):
                self.unspecified.add(r['key'])  # configuration re-read while the watchdog has toggled the member
        if r['wd'] and r['wd'][1]:
            self.member.setdefault(r['wd'][0], {}).setdefault(r['key'], [r, '-'])
            return
        if r['wd']:
            self.member.setdefault(r['wd'][0], {})[r['key']] = [r, '+']
        self.table[r['key']] = r['value']

    def config(self, previous, current):
        for r in current:
            self.load(r)
        kept = {r['key'] for r in current}
        for r in previous:
            if r['key'] not in kept:
                self.table.pop(r['key'], None)

    def apply(self, op, previous):
        U, kind = self.U, op[0]
        if kind == 'announce':
            r = U['routes'][op[1]]
            self.table[r['key']] = r['value']
        elif kind == 'withdraw':
            self.table.pop(withdraw_key(U, op[1]), None)
        elif kind == 'clear':
            self.table.clear()
        elif kind in ('wd-announce', 'wd-withdraw'):
            for key, m in self.member.get(op[1], {}).items():
                if kind == 'wd-announce' and m[1] == '-':
                    self.table[key], m[1] = m[0]['value'], '+'
                elif kind == 'wd-withdraw' and m[1] == '+':
                    self.table.pop(key, None)
                    m[1] = '-'
        elif kind in ('reload', 'restart') and op[1] is not None:
            self.config(previous, [U['routes'][i] for i in op[1]])
        # refresh, restart without a new configuration: the intended table does not change


def withdraw_key(U, wid):
    nb = len(U['bare'])
    return U['keys'][wid] if wid < nb else U['routes'][wid - nb]['key']


def op_text(U, op) -> str:
    kind = op[0]
    if kind == 'announce':
        return 'announce ' + U['routes'][op[1]]['text']
    if kind == 'withdraw':
        nb = len(U['bare'])
        return 'withdraw ' + (U['bare'][op[1]] if op[1] < nb else U['routes'][op[1] - nb]['text'])
    if kind == 'clear':
        return 'clear adj-rib out'
    if kind == 'refresh':
        return ('enhanced ' if op[1] else '') + 'route refresh / flush adj-rib out' + (f' family {FAMILY[op[2]]}' if op[2] else '')
    if kind in ('wd-announce', 'wd-withdraw'):
        return kind.replace('wd-', '') + ' watchdog ' + op[1]
    if kind == 'reload':
        return 'reload, configuration = [' + '; '.join(U['routes'][i]['text'] for i in op[1]) + ']'
    if kind == 'restart':
        return 'session lost and re-established' + ('' if op[1] is None else ', new configuration = [' + '; '.join(U['routes'][i]['text'] for i in op[1]) + ']')
    return repr(op)


# ----------------------------------------------------------------------------------------------------------------
# icontract early warnings (attached from the harness to the real OutgoingRIB; NOT the verdict)
# ----------------------------------------------------------------------------------------------------------------


class ContractEarlyWarning(Exception):
    pass


class _Contracts:
    def __init__(self):
        self.evaluations: dict[str, int] = {}
        self.failures: dict[str, int] = {}
        self.strict = False  # only the plumbing self test raises; while monitoring the outcome is recorded
        self.warned = 0  # failures during the current history
        self.attached: list[str] = []
        self.on = False


CM = _Contracts()


def _contract_outcome(name: str, ok: bool) -> bool:
    CM.evaluations[name] = CM.evaluations.get(name, 0) + 1
    if not ok:
        CM.failures[name] = CM.failures.get(name, 0) + 1
        CM.warned += 1
    return ok or not CM.strict


def _groups_holding(rib, index) -> int:
    n = 0
    for per_family in rib._new_attr_af_nlri.values():
        for routes in per_family.values():
            if index in routes:
                n += 1
    return n


def queued_announce_in_exactly_one_attribute_group(self) -> bool:
    ok = True
    for index in self._new_nlri:
        if _groups_holding(self, index) != 1:
            ok = False
            break
    return _contract_outcome('queued-announce-in-exactly-one-attribute-group', ok)


def no_attribute_group_entry_without_queued_announce(self) -> bool:
    ok = True
    for per_family in self._new_attr_af_nlri.values():
        for routes in per_family.values():
            for index, route in routes.items():
                if self._new_nlri.get(index) is not route:
                    ok = False
    return _contract_outcome('no-attribute-group-entry-without-queued-announce', ok)


def withdrawn_index_not_left_queued_for_announce(self, route_index) -> bool:
    ok = route_index not in self._new_nlri and _groups_holding(self, route_index) == 0
    return _contract_outcome('withdrawn-index-not-left-queued-for-announce', ok)


def early_warning_error(self) -> ContractEarlyWarning:
    return ContractEarlyWarning('OutgoingRIB structural invariant broken')


_methods: dict = {'plain': {}, 'wrapped': {}}


def contracts(on: bool) -> None:
    """switch the contract wrappers on the class on / off (the wrappers cost as much as the RIB operation itself)"""
    from exabgp.rib.outgoing import OutgoingRIB

    for name, fn in _methods['wrapped' if on else 'plain'].items():
        setattr(OutgoingRIB, name, fn)
    CM.on = on


def attach_contracts() -> None:
    import icontract
    from exabgp.rib.outgoing import OutgoingRIB

    if getattr(OutgoingRIB, '_c04_contracts', False):
        return
    for name in ('_update_rib', '_del_from_rib_impl'):
        _methods['plain'][name] = OutgoingRIB.__dict__[name]
    plan = [
        ('_update_rib', queued_announce_in_exactly_one_attribute_group),
        ('_update_rib', no_attribute_group_entry_without_queued_announce),
        ('_del_from_rib_impl', no_attribute_group_entry_without_queued_announce),
        ('_del_from_rib_impl', withdrawn_index_not_left_queued_for_announce),
    ]
    for name, condition in plan:
        fn = OutgoingRIB.__dict__[name]
        wrapped = icontract.ensure(condition, error=early_warning_error)(fn)
        setattr(OutgoingRIB, name, wrapped)
        CM.attached.append(f'OutgoingRIB.{name}:{condition.__name__}')
    for name in ('_update_rib', '_del_from_rib_impl'):
        _methods['wrapped'][name] = OutgoingRIB.__dict__[name]
    OutgoingRIB._c04_contracts = True
    CM.on = True


# ----------------------------------------------------------------------------------------------------------------
# the real side
# ----------------------------------------------------------------------------------------------------------------


class Inconclusive(Exception):
    pass


class Session:
    """real neighbor + Negotiated + parsed routes for one (universe, add-path) kind"""

    def __init__(self, kind: str, addpath: bool):
        from exabgp.protocol.family import AFI, SAFI
        from exabgp.protocol.ip import IP
        from exabgp.rib.outgoing import OutgoingRIB

        self.kind, self.addpath = kind, addpath
        self.U = universe(kind, addpath)
        fams = [(1, 1), (2, 1)]
        text = exa.neighbor_text(families=fams, extra='    adj-rib-out true;', addpath=3 if addpath else 0, las=LOCAL_AS, pas=PEER_AS)
        self.conf = exa.load_config(text)
        self.nb = next(iter(self.conf.neighbors.values()))
        caps = [rw.cap_mp(1, 1), rw.cap_mp(2, 1), rw.cap_asn4(PEER_AS)]
        if addpath:
            caps.append(rw.cap_addpath([(1, 1, 3), (2, 1, 3)]))
        self.neg, _, _ = exa.negotiate(self.nb, rw.enc_open_body(PEER_AS, 180, '10.0.0.2', caps))
        if not self.nb.adj_rib_out or not self.nb.rib.outgoing.cache:
            raise Inconclusive('adj-rib-out is not enabled on the parsed neighbor')
        if {(int(a), int(s)) for a, s in self.neg.families} != set(fams):
            raise Inconclusive(f'negotiated families {self.neg.families}')
        if not self.neg.asn4:
            raise Inconclusive('asn4 not negotiated')
        for a, s in fams:
            if bool(self.neg.addpath.send(a, s)) != addpath:
                raise Inconclusive(f'add-path send for {(a, s)} is {self.neg.addpath.send(a, s)}, wanted {addpath}')
        self.rsess = rw.sess(asn4=True, addpath=set(fams) if addpath else set())
        self.paths_limit = self.neg.paths_limit or None
        self.famobj = {4: (AFI.ipv4, SAFI.unicast), 6: (AFI.ipv6, SAFI.unicast)}
        self._rib_class = OutgoingRIB
        # routes through the real parser, then resolve_self as Configuration.announce_route does
        self.R = []
        for r in self.U['routes']:
            self.R.append(self.nb.resolve_self(self._parse(r['text'], 'announce')))
        self.W = []
        for t in self.U['bare']:
            route = self._parse(t, 'withdraw')
            if route.nexthop is IP.NoNextHop:  # command/announce.py withdraw_route
                route = route.with_nexthop(IP.from_string('0.0.0.0'))
            self.W.append(self.nb.resolve_self(route))
        self.W += self.R
        self.wdids = set(self.U['wd'])
        self.deccache: dict = {}
        self.repcache: dict = {}

    def _parse(self, text, action):
        routes = self.conf.parse_route_text(text, action)
        if len(routes) != 1:
            raise Inconclusive(f'the real parser gives {len(routes)} routes for {text!r}')
        return routes[0]

    def configured(self, ids) -> list:
        """Route objects as a (re)parsed configuration hands them over: AttributeCollection.watchdog()/withdraw() POP the internal
        attributes, so a route object can go through add_to_rib_watchdog only once; every load gets a new object (a copy of the
        parsed template made by the production Route.with_merged_attributes)"""
        from exabgp.bgp.message.update.attribute.collection import AttributeCollection

        out = []
        for i in ids:
            route = self.R[i]
            if i in self.wdids:
                route = route.with_merged_attributes(AttributeCollection())
            out.append(route)
        return out

    def fresh_rib(self):
        out = self._rib_class(self.nb.adj_rib_out, set(self.nb.families()))
        self.nb.rib.outgoing = out
        return out

    def decode(self, message: bytes):
        d = self.deccache.get(message)
        if d is None:
            d = self.deccache[message] = rw.dec_update(message[19:], self.rsess)
        return d

    def reported(self, out) -> dict:
        table = {}
        for route in out.cached_routes():
            text = route.extensive()
            afi, safi = route.nlri.family().afi_safi()
            item = self.repcache.get(text)
            if item is None:
                item = self.repcache[text] = parse_extensive(text)
            prefix, pid, value = item
            key = (int(afi), int(safi), pid, prefix)
            if key in table:
                table[('duplicate',) + key] = value
            table[key] = value
        return table


def parse_extensive(text: str):
    """'10.0.0.0/24 path-information 0.0.0.1 next-hop 1.2.3.4 med 7 community [ 65000:1 65000:2 ]' -> (prefix, pid, (med, comms, nh))"""
    tok = text.split()
    prefix, pid, nh, med, comms = norm_prefix(tok[0]), None, None, None, []
    i = 1
    while i < len(tok):
        t = tok[i]
        if t == 'path-information':
            pid = int(ipaddress.ip_address(tok[i + 1]))
            i += 2
        elif t == 'next-hop':
            nh = norm_ip(tok[i + 1])
            i += 2
        elif t == 'med':
            med = int(tok[i + 1])
            i += 2
        elif t == 'community':
            i += 1
            if tok[i] == '[':
                i += 1
                while tok[i] != ']':
                    comms.append(tuple(int(x) for x in tok[i].split(':')))
                    i += 1
                i += 1
            else:
                comms.append(tuple(int(x) for x in tok[i].split(':')))
                i += 1
        else:
            i += 1
    return prefix, pid, (med, tuple(comms), nh)


_lit: dict = {}


def peer_value(entry) -> tuple:
    """refwire.PeerTable entry -> (med, comms, nh)"""
    med, comms = None, ()
    for code, text in entry['attrs']:
        if code == 4:
            med = int(text)
        elif code == 8:
            v = _lit.get(text)
            if v is None:
                v = _lit[text] = tuple(tuple(x) for x in ast.literal_eval(text))
            comms = v
    hops = entry['nexthop']
    return (med, comms, norm_ip(hops[0]) if len(hops) == 1 else tuple(hops))


DRAIN_ROUNDS = 3
STEP_BOUND = 4000


def execute(S: Session, case: dict, keep_log: bool = False) -> dict:
    """run one history on the real RIB. case = {'group', 'start', 'config': [ids], 'hist': [[op, eat], ...]}"""
    U, R, W, nb, neg = S.U, S.R, S.W, S.nb, S.neg
    out = S.fresh_rib()
    group = case['group']
    nb.group_updates = group
    peer = rw.PeerTable()
    stale: dict = {}
    log: list = []
    state = {'gen': None, 'iw': False, 'live_abandoned': 0, 'msgs': 0, 'sync_early': 0, 'events': []}
    model = Intended(U)
    CM.warned = 0
    paths_limit = S.paths_limit

    def record(message: bytes) -> None:
        state['msgs'] += 1
        if keep_log:
            log.append(message)
        mtype = message[18]
        if mtype == 2:
            d = S.decode(message)
            peer.apply(d)
            if stale:
                for n, _ in d['announce']:
                    k = rw.nlri_key(n)
                    s = stale.get((k[0], k[1]))
                    if s:
                        s.discard(k)
        elif mtype == 5:  # ROUTE-REFRESH afi(2) subtype(1) safi(1): RFC 7313 BoRR / EoRR
            afi, sub, safi = int.from_bytes(message[19:21], 'big'), message[21], message[22]
            if sub == 1:
                stale[(afi, safi)] = {k for k in peer.routes if k[0] == afi and k[1] == safi}
            elif sub == 2:
                for k in stale.pop((afi, safi), ()):
                    peer.routes.pop(k, None)

    def messages(include_withdraw: bool):  # Protocol.new_update_generator
        for update in out.updates(group, paths_limit=paths_limit):
            for message in update.messages(neg, include_withdraw):
                record(message)
                yield

    def pump(steps: int) -> bool:  # Peer._send_route_updates; -> True when a generator was exhausted
        if state['gen'] is None and out.pending():
            state['gen'] = messages(state['iw'])
        gen = state['gen']
        if gen is not None:
            try:
                for _ in range(steps):
                    next(gen)
            except StopIteration:
                state['gen'] = None
                state['iw'] = True
                out.fire_flush_callbacks()
                if state['events']:
                    if out.pending():
                        state['sync_early'] += 1
                    state['events'] = []
                return True
        return False

    def drain() -> bool:
        rounds = 0
        while (state['gen'] is not None or out.pending()) and rounds < DRAIN_ROUNDS:
            if not pump(STEP_BOUND):
                return False
            rounds += 1
        return state['gen'] is None and not out.pending()

    def restart(previous, current) -> None:
        if state['gen'] is not None:
            state['live_abandoned'] += 1
        state['gen'] = None
        state['events'] = []
        nb.reset_rib()  # Peer._reset
        peer.routes.clear()
        stale.clear()
        state['iw'] = False  # Peer._main
        out.replace_restart(previous, current)

    res = {'status': 'ok', 'at': None}
    config = [i for i in case['config']]
    try:
        # configuration load (ParseNeighbor._init_neighbor) and session establishment (Peer._main)
        config_routes = S.configured(config)
        for route in config_routes:
            out.add_to_rib_watchdog(route)
        model.config([], [U['routes'][i] for i in config])
        restart([], config_routes)
        state['live_abandoned'] = 0
        if case['start'] == 'mid':
            if not drain():
                res.update(status='never-drains', at='establishment')
            state['iw'] = True
        if res['status'] == 'ok':
            for n, (op, eat) in enumerate(case['hist']):
                kind = op[0]
                res['at'] = n
                if kind == 'announce':
                    if state['gen'] is not None:
                        state['events'].append(out.register_flush_callback())
                    out.add_to_rib(R[op[1]])
                elif kind == 'withdraw':
                    if state['gen'] is not None:
                        state['events'].append(out.register_flush_callback())
                    out.del_from_rib(W[op[1]])
                elif kind == 'clear':
                    out.withdraw()
                elif kind == 'refresh':
                    out.resend(op[1], S.famobj[op[2]] if op[2] else None)
                elif kind == 'wd-announce':
                    out.announce_watchdog(op[1])
                elif kind == 'wd-withdraw':
                    out.withdraw_watchdog(op[1])
                elif kind == 'reload':
                    current = S.configured(op[1])
                    for route in current:
                        out.add_to_rib_watchdog(route)
                    out.replace_reload(config_routes, current)
                    config_routes = current
                elif kind == 'restart':
                    if op[1] is None:
                        restart([], config_routes)
                    else:
                        current = S.configured(op[1])
                        for route in current:
                            out.add_to_rib_watchdog(route)
                        restart(config_routes, current)
                        config_routes = current
                else:
                    raise Inconclusive(f'unknown operation {op!r}')
                model.apply(op, [U['routes'][i] for i in config])
                if kind in ('reload', 'restart') and op[1] is not None:
                    config = list(op[1])
                if eat == 'drain':
                    if not drain():
                        res.update(status='never-drains')
                        break
                else:
                    for steps in eat:
                        pump(steps)
            else:
                res['at'] = 'final'
                if not drain():
                    res.update(status='never-drains')
    except Inconclusive:
        raise
    except ContractEarlyWarning:
        raise
    except Exception as e:  # noqa: BLE001 - anything the real code raises is an observation
        res.update(status='raises', error=f'{type(e).__name__}: {str(e)[:160]}', exc=type(e).__name__)
    res['peer'] = {(k[0], k[1], k[2], norm_prefix(k[5])): peer_value(v) for k, v in peer.routes.items()}
    try:
        res['reported'] = S.reported(out)
    except Exception as e:  # noqa: BLE001
        res['reported'] = {}
        if res['status'] == 'ok':
            res.update(status='raises', error=f'cached_routes: {type(e).__name__}: {str(e)[:160]}', exc=type(e).__name__, at='report')
    res['intended'] = dict(model.table)
    res['unspecified'] = set(model.unspecified)
    res['warned'] = CM.warned
    res['msgs'] = state['msgs']
    res['live_abandoned'] = state['live_abandoned']
    res['sync_early'] = state['sync_early']
    res['log'] = log
    return res


# ----------------------------------------------------------------------------------------------------------------
# verdict, minimisation, naming
# ----------------------------------------------------------------------------------------------------------------


def verdict(r: dict):
    """-> None when the three tables agree, else (class, offending key, text)"""
    if r['status'] == 'never-drains':
        return ('never-drains', None, f'the outgoing queue is not empty after {DRAIN_ROUNDS} further generator rounds (at {r["at"]})')
    if r['status'] == 'raises':
        return ('raises:' + r['exc'], None, f'the real code raised {r["error"]} at step {r["at"]}')
    P, Rp, I = r['peer'], r['reported'], r['intended']
    if r.get('unspecified'):  # the reported table stands for the intention on the keys the model does not define
        I = dict(I)
        for k in r['unspecified']:
            I.pop(k, None)
            if k in Rp:
                I[k] = Rp[k]
    if P == Rp and Rp == I:
        return None
    for k in sorted(P, key=repr):
        if k in Rp and P[k] != Rp[k] and Rp[k] == I.get(k):
            return ('stale-announcement-survives', k, f'peer holds {k} = {P[k]} from an earlier announcement, ExaBGP reports (and the operator asked for) {Rp[k]}')
    for k in sorted(P, key=repr):
        if k not in Rp and k not in I:
            return ('withdrawn-route-resurrected', k, f'peer holds {k} = {P[k]}, which was withdrawn: ExaBGP does not report it and the operator does not want it')
    if P != Rp:
        missing = sorted((k for k in Rp if k not in P), key=repr)
        extra = sorted((k for k in P if k not in Rp), key=repr)
        differ = sorted((k for k in P if k in Rp and P[k] != Rp[k]), key=repr)
        if missing:
            return ('peer-vs-reported:missing-at-peer', missing[0], f'ExaBGP reports {missing[0]} = {Rp[missing[0]]}, the peer was never given it (or it was withdrawn afterwards)')
        if extra:
            return ('peer-vs-reported:extra-at-peer', extra[0], f'peer holds {extra[0]} = {P[extra[0]]}, ExaBGP does not report it')
        return ('peer-vs-reported:differs', differ[0], f'peer holds {differ[0]} = {P[differ[0]]}, ExaBGP reports {Rp[differ[0]]}')
    missing = sorted((k for k in I if k not in Rp), key=repr)
    extra = sorted((k for k in Rp if k not in I), key=repr)
    differ = sorted((k for k in I if k in Rp and I[k] != Rp[k]), key=repr)
    if missing:
        return ('reported-vs-intended:missing', missing[0], f'the operator asked for {missing[0]} = {I[missing[0]]}; neither reported nor sent')
    if extra:
        return ('reported-vs-intended:extra', extra[0], f'ExaBGP reports and sent {extra[0]} = {Rp[extra[0]]}, which the operator did not ask for (or withdrew)')
    return ('reported-vs-intended:differs', differ[0], f'ExaBGP reports and sent {differ[0]} = {Rp[differ[0]]}, the operator asked for {I[differ[0]]}')


def simpler_ops(S: Session, op, keys):
    """candidate replacements of one operation by a more elementary one (tried while the same class persists)"""
    U, kind = S.U, op[0]
    nb = len(U['bare'])
    if kind in ('clear', 'wd-withdraw'):
        for k in keys:
            yield ['withdraw', U['keys'].index(k)]
    elif kind == 'wd-announce':
        for k in keys[:2]:
            for i in [i for i in U['plain'] if U['routes'][i]['key'] == k][:6]:
                yield ['announce', i]
    elif kind == 'refresh':
        if op[1]:
            yield ['refresh', False, op[2]]
        if op[2]:
            yield ['refresh', op[1], None]
    elif kind == 'restart' and op[1] is not None:
        yield ['restart', None]
    elif kind == 'reload':
        for i in op[1]:
            j = i if U['routes'][i]['wd'] is None else U['equiv'].get(i)
            if j is not None:
                yield ['announce', j]
        for k in keys:
            yield ['withdraw', U['keys'].index(k)]
    elif kind == 'withdraw' and op[1] >= nb:
        yield ['withdraw', U['keys'].index(U['routes'][op[1] - nb]['key'])]


def minimise(S: Session, case: dict, cls: str, key=None, budget: int = 2500):
    """delta debugging on the history: remove operations, replace operations by more elementary ones, simplify consumption,
    configuration and session flags, while a disagreement of the same class persists"""
    runs = [0]
    U = S.U

    def holds(c) -> bool:
        if runs[0] >= budget:
            return False
        runs[0] += 1
        v = verdict(execute(S, c))
        return v is not None and v[0] == cls

    def remove(cur):
        changed = True
        while changed:
            changed = False
            for i in range(len(cur['hist'])):
                cand = dict(cur, hist=cur['hist'][:i] + cur['hist'][i + 1 :])
                if cand['hist'] and holds(cand):
                    cur, changed = cand, True
                    break
        return cur

    cur = dict(case, hist=[list(s) for s in case['hist']])
    for _ in range(6):
        before = repr(cur)
        cur = remove(cur)
        # session flags: canonical = group on, mid session (include_withdraw True)
        for flag, canon in (('group', True), ('start', 'mid')):
            if cur[flag] != canon:
                cand = dict(cur, **{flag: canon})
                if holds(cand):
                    cur = cand
        # elementary operations
        now = verdict(execute(S, cur))
        keys = [now[1]] if now is not None and now[1] is not None else []
        for i in cur['config']:
            if U['routes'][i]['key'] not in keys:
                keys.append(U['routes'][i]['key'])
        for op, _ in cur['hist']:
            k = U['routes'][op[1]]['key'] if op[0] == 'announce' else (withdraw_key(U, op[1]) if op[0] == 'withdraw' else None)
            if k is not None and k not in keys:
                keys.append(k)
        changed = True
        while changed:
            changed = False
            for i in reversed(range(len(cur['hist']))):
                for repl in simpler_ops(S, cur['hist'][i][0], keys):
                    hist = [list(x) for x in cur['hist']]
                    hist[i][0] = repl
                    cand = dict(cur, hist=hist)
                    if holds(cand):
                        cur, changed = cand, True
                        break
        cur = remove(cur)
        # configuration: drop configured routes that do not matter; a watchdog member -> the same plain route; a configured
        # plain route -> an announce placed first (nothing sent in between)
        for i in list(cur['config']):
            rest = [x for x in cur['config'] if x != i]
            j = i if U['routes'][i]['wd'] is None else U['equiv'].get(i)
            cands = [dict(cur, config=rest)]
            if j is not None:
                cands.append(dict(cur, config=rest, hist=[[['announce', j], []]] + cur['hist']))
                if j != i:
                    cands.append(dict(cur, config=rest + [j]))
            for cand in cands:
                if holds(cand):
                    cur = cand
                    break
        # a session restart re-queues everything reported: try the same history without it and with nothing sent before it
        for i in range(len(cur['hist'])):
            if cur['hist'][i][0] == ['restart', None]:
                hist = [[op, []] for op, _ in cur['hist'][:i]] + [list(x) for x in cur['hist'][i + 1 :]]
                done = False
                for start in ('mid', 'fresh'):
                    cand = dict(cur, hist=hist, start=start)
                    if hist and holds(cand):
                        cur, done = cand, True
                        break
                if done:
                    break
        # a new configuration -> one announce per configured route (then the bare restart)
        for i in range(len(cur['hist'])):
            op, eat = cur['hist'][i]
            if op[0] in ('reload', 'restart') and op[1]:
                ids = [j if U['routes'][j]['wd'] is None else U['equiv'].get(j) for j in op[1]]
                ids = [j for j in ids if j is not None]
                if not ids:
                    continue
                seq = [[['announce', j], []] for j in ids]
                if op[0] == 'restart':
                    seq.append([['restart', None], eat])
                else:
                    seq[-1][1] = eat
                cand = dict(cur, hist=[list(x) for x in cur['hist'][:i]] + seq + [list(x) for x in cur['hist'][i + 1 :]])
                if holds(cand):
                    cur = cand
                    break
        # all watchdog operations at once -> announce / withdraw of one route of the same key
        names = {op[1] for op, _ in cur['hist'] if op[0] in ('wd-announce', 'wd-withdraw')}
        for name in sorted(names):
            members = [i for i in cur['config'] if U['routes'][i]['wd'] and U['routes'][i]['wd'][0] == name]
            done = False
            for m in members:
                k = U['routes'][m]['key']
                for j in [j for j in U['plain'] if U['routes'][j]['key'] == k][:6]:
                    hist = []
                    for op, eat in cur['hist']:
                        if op == ['wd-announce', name]:
                            op = ['announce', j]
                        elif op == ['wd-withdraw', name]:
                            op = ['withdraw', U['keys'].index(k)]
                        hist.append([op, eat])
                    cand = dict(cur, hist=hist)
                    if holds(cand):
                        cur, done = cand, True
                        break
                if done:
                    break
        # consumption: prefer 'drain' (timing is irrelevant), then none, then a single step
        for i in range(len(cur['hist']) - 1):
            for eat in ('drain', [], [1]):
                if cur['hist'][i][1] == eat:
                    break
                hist = [list(x) for x in cur['hist']]
                hist[i][1] = eat
                cand = dict(cur, hist=hist)
                if holds(cand):
                    cur = cand
                    break
        if cur['hist']:
            cur['hist'][-1][1] = []
        # operations carrying a configuration: shrink it
        for i in range(len(cur['hist'])):
            op = cur['hist'][i][0]
            if op[0] in ('reload', 'restart') and op[1]:
                for rid in list(op[1]):
                    hist = [list(x) for x in cur['hist']]
                    hist[i][0] = [op[0], [x for x in hist[i][0][1] if x != rid]]
                    cand = dict(cur, hist=hist)
                    if holds(cand):
                        cur = cand

        if repr(cur) == before:
            break
    return cur, runs[0]


def pattern(S: Session, case: dict) -> str:
    """structural name of a (minimal) history: operation kinds, key / value identities by order of appearance, consumption"""
    U = S.U
    keys: list = []
    vals: list = []

    def kname(k):
        if k not in keys:
            keys.append(k)
        return 'ABCDEFGHIJKLMNOP'[keys.index(k)]

    def vname(v):
        if v not in vals:
            vals.append(v)
        return 'xyzuvwrst'[vals.index(v) % 9]

    cfg = []
    for i in case['config']:
        r = U['routes'][i]
        cfg.append(kname(r['key']) + '.' + vname(r['value']) + ('' if r['wd'] is None else ('(watchdog-withdrawn)' if r['wd'][1] else '(watchdog)')))
    toks = []
    for op, eat in case['hist']:
        kind = op[0]
        if kind == 'announce':
            r = U['routes'][op[1]]
            t = ['announce', kname(r['key']), vname(r['value'])]
        elif kind == 'withdraw':
            t = ['withdraw', kname(withdraw_key(U, op[1])), '']
        elif kind == 'refresh':
            t = ['refresh-enhanced' if op[1] else 'refresh', '', '']
        elif kind in ('reload', 'restart'):
            inner = []
            for rid in op[1] or []:
                r = U['routes'][rid]
                inner.append(kname(r['key']) + '.' + vname(r['value']) + ('' if r['wd'] is None else ('(watchdog-withdrawn)' if r['wd'][1] else '(watchdog)')))
            t = [kind + ('[' + '+'.join(inner) + ']' if op[1] is not None else ''), '', '']
        else:
            t = [kind, '', '']
        toks.append((t, eat))
    many = len(keys) > 1 or bool(cfg)
    out = []
    for (name, k, v), eat in toks:
        s = name
        if k and many:
            s += '-' + k + ('.' + v if v else '')
        elif v:
            s += '-' + v
        out.append((s, eat))
    body = []
    eats = [e for _, e in out[:-1]]
    for i, (s, eat) in enumerate(out):
        if i < len(out) - 1 and eats and not all(e == [] for e in eats):
            s += '>drain' if eat == 'drain' else ('>step' if eat else '')
        body.append(s)
    name = ','.join(body)
    if len(out) > 1 and all(e == [] for e in eats):
        name += '-before-flush'
    if cfg:
        name = 'configured[' + '+'.join(cfg) + '],' + name
    if not case['group']:
        name += ':group-off'
    if case['start'] == 'fresh':
        name += ':first-batch-of-session'
    return name


def mechanism_name(S: Session, case: dict, full: str) -> str:
    """the key: the full pattern for an elementary minimal history (<= 3 operations and configured routes); for the long
    tail of longer minimal histories only the elementary operation kinds left, so that the key space stays bounded"""
    if len(case['hist']) + len(case['config']) <= 3:
        return full
    kinds = set()
    for op, _ in case['hist']:
        kinds.add('refresh' if op[0] == 'refresh' else op[0])
    if case['config']:
        kinds.add('configured')
    name = 'long:' + '+'.join(sorted(kinds))
    if not case['group']:
        name += ':group-off'
    if case['start'] == 'fresh':
        name += ':first-batch-of-session'
    return name


def table_text(t: dict) -> list:
    return [f'{k} -> med {v[0]} communities {list(v[1])} next-hop {v[2]}' for k, v in sorted(t.items(), key=repr)]


def witness(S: Session, case: dict, r: dict) -> dict:
    U = S.U
    msgs = []
    for m in r['log']:
        if m[18] == 2:
            d = S.decode(m)
            desc = 'UPDATE'
            if d['withdraw']:
                desc += ' withdraw ' + ', '.join(f'{n["prefix"]}' + (f' path-id {n["pathid"]}' if n.get('pathid') is not None else '') for n in d['withdraw'])
            if d['announce']:
                desc += ' announce ' + ', '.join(f'{n["prefix"]}' + (f' path-id {n["pathid"]}' if n.get('pathid') is not None else '') + f' nh {h}' for n, h in d['announce'])
                desc += f' med {d["attrs"].get(4)} communities {d["attrs"].get(8)}'
            msgs.append({'hex': m.hex(), 'what': desc})
        else:
            msgs.append({'hex': m.hex(), 'what': 'ROUTE-REFRESH ' + {1: 'BoRR', 2: 'EoRR'}.get(m[21], 'request')})
    return {
        'universe': S.kind,
        'addpath': S.addpath,
        'group_updates': case['group'],
        'session_start': case['start'],
        'configuration': [U['routes'][i]['text'] for i in case['config']],
        'history': [{'op': op_text(U, op), 'then': ('drain the queue' if eat == 'drain' else ('nothing sent' if not eat else f'pump {eat} message(s)'))} for op, eat in case['hist']],
        'case': case,
        'emitted': msgs,
        'peer_table': table_text(r['peer']),
        'reported_adj_rib_out': table_text(r['reported']),
        'intended_table': table_text(r['intended']),
        'status': r['status'],
        'contract_early_warnings_in_history': r['warned'],
    }


# ----------------------------------------------------------------------------------------------------------------
# workloads
# ----------------------------------------------------------------------------------------------------------------

SMALL_EATS = [[], [1], 'drain']


def small_alphabet(U) -> list:
    ops = [['announce', i] for i in U['plain']]
    ops += [['withdraw', i] for i in range(2)]  # the two prefixes, bare withdraw
    ops += [['clear'], ['refresh', False, None], ['refresh', True, None], ['wd-announce', 'W0'], ['wd-withdraw', 'W0'], ['restart', None]]
    return ops


def small_space_size(nops: int, maxlen: int) -> int:
    return sum(nops**k * len(SMALL_EATS) ** (k - 1) for k in range(1, maxlen + 1))


def small_history(ops: list, length: int, index: int) -> list:
    """index -> history of `length` operations: mixed radix, (op, eat) pairs, the last step has no consumption"""
    hist = []
    ne = len(SMALL_EATS)
    for pos in range(length):
        index, o = divmod(index, len(ops))
        if pos < length - 1:
            index, e = divmod(index, ne)
            hist.append([ops[o], SMALL_EATS[e]])
        else:
            hist.append([ops[o], []])
    return hist


def random_case(rnd: random.Random, S: Session) -> dict:
    U = S.U
    keys = U['keys']
    focus = rnd.sample(keys, rnd.choice((1, 1, 2, 2, 3, 4)))
    # watchdog members collide with API routes only when their key is in focus: add them half of the time
    if rnd.random() < 0.5:
        focus = list(dict.fromkeys(focus + [U['routes'][i]['key'] for i in rnd.sample(U['wd'], rnd.randint(1, len(U['wd'])))]))
    pool = [i for i in U['plain'] if U['routes'][i]['key'] in focus]
    kidx = [keys.index(k) for k in focus]
    nb = len(U['bare'])

    def cfg():
        chosen = {}
        for i in rnd.sample(pool, min(len(pool), rnd.choice((0, 0, 1, 2, 3)))):
            chosen.setdefault(U['routes'][i]['key'], i)
        wdkeys = {U['routes'][i]['key'] for i in U['wd']}
        return list(U['wd']) + [i for k, i in chosen.items() if k not in wdkeys]

    config = cfg()
    length = rnd.choice((1, 2, 3, 4, 5, 6, 8, 10, 12, 12))
    hist = []
    for _ in range(length):
        x = rnd.random()
        if x < 0.42:
            op = ['announce', rnd.choice(pool)]
        elif x < 0.58:
            op = ['withdraw', rnd.choice(kidx) if rnd.random() < 0.6 else nb + rnd.choice(pool)]
        elif x < 0.62:
            op = ['clear']
        elif x < 0.70:
            op = ['refresh', rnd.random() < 0.5, rnd.choice((None, None, 4, 6))]
        elif x < 0.78:
            op = ['wd-announce', rnd.choice(('W0', 'W1', 'W0', 'nosuch'))]
        elif x < 0.86:
            op = ['wd-withdraw', rnd.choice(('W0', 'W1', 'W0', 'nosuch'))]
        elif x < 0.92:
            op = ['reload', cfg()]
        else:
            op = ['restart', cfg() if rnd.random() < 0.3 else None]
        y = rnd.random()
        if y < 0.45:
            eat = []
        elif y < 0.72:
            eat = [rnd.randint(1, 3) for _ in range(rnd.randint(1, 2))]
        else:
            eat = 'drain'
        hist.append([op, eat])
    return {'group': rnd.random() < 0.6, 'start': 'fresh' if rnd.random() < 0.7 else 'mid', 'config': config, 'hist': hist}


def eat_kind(eat) -> str:
    return 'drain' if eat == 'drain' else ('partial' if eat else 'none')


def op_class(op) -> str:
    if op[0] == 'refresh':
        return 'op:refresh-enhanced' if op[1] else 'op:refresh'
    if op[0] == 'restart' and op[1] is not None:
        return 'op:restart-new-configuration'
    return 'op:' + op[0]


def shape(S: Session, case: dict):
    """distinct signature: operation kinds, consumption kinds and which operations hit the same key"""
    U = S.U
    keys: list = []
    sig = []
    for op, eat in case['hist']:
        k = None
        if op[0] == 'announce':
            k = U['routes'][op[1]]['key']
        elif op[0] == 'withdraw':
            k = withdraw_key(U, op[1])
        if k is not None and k not in keys:
            keys.append(k)
        sig.append((op_class(op), keys.index(k) if k is not None else -1, eat_kind(eat)))
    return (S.kind, S.addpath, case['group'], case['start'], len(case['config']), tuple(sig))


class Tally:
    def __init__(self):
        self.classes: dict[str, int] = {}

    def add(self, cls: str) -> None:
        self.classes[cls] = self.classes.get(cls, 0) + 1


def judge(res: Result, S: Session, case: dict, tally: Tally, extra_cls: str, stats: dict) -> None:
    r = execute(S, case)
    v = verdict(r)
    classes = {extra_cls, 'group:' + ('on' if case['group'] else 'off'), 'addpath:' + ('on' if S.addpath else 'off'), 'start:' + case['start']}
    fams = set()
    for op, eat in case['hist']:
        classes.add(op_class(op))
        classes.add('consume:' + eat_kind(eat))
        if op[0] == 'announce':
            fams.add(S.U['routes'][op[1]]['fam'])
        elif op[0] == 'withdraw':
            fams.add(4 if withdraw_key(S.U, op[1])[0] == 1 else 6)
    if r['live_abandoned']:
        classes.add('consume:abandon')
    for f in fams:
        classes.add('family:ipv%d-unicast' % f)
    stats['messages'] += r['msgs']
    stats['sync_early'] += r['sync_early']
    if r.get('unspecified'):
        stats['watchdog_reload_unspecified'] += 1
    if CM.on:  # early warning vs verdict, on the histories run with the contracts switched on
        stats['contracts-on-histories'] += 1
        if r['warned']:
            stats['warned-and-violated' if v else 'warned-not-violated'] += 1
        elif v:
            stats['violated-not-warned'] += 1
    if v is None:
        for c in classes:
            tally.add(c)
        if len(res.distinct) < res.MAX_DISTINCT:
            res.distinct.add(rw_digest(shape(S, case)))
        if len(res.samples) < 3 and len(case['hist']) >= 3:
            res.sample({'history': [op_text(S.U, op) + ' / ' + eat_kind(eat) for op, eat in case['hist']], 'tables_agree_on': table_text(r['peer'])}, limit=3)
        return
    cls, key, text = v
    stats['violating_histories'] += 1
    small, runs = minimise(S, case, cls, key)
    stats['minimisation_runs'] += runs
    rr = execute(S, small, keep_log=True)
    vv = verdict(rr)
    if vv is None or vv[0] != cls:  # budget exhausted in the middle: fall back to the original history
        small, rr, vv = case, execute(S, case, keep_log=True), v
    name = pattern(S, small)
    mech = f'C04/{cls}:{mechanism_name(S, small, name)}'
    wit = witness(S, small, rr)
    wit['minimal_pattern'] = name
    wit['original_history_length'] = len(case['hist'])
    wit['original_case'] = case
    wit['minimisation_runs'] = runs
    res.violation(mech, vv[2], wit, extra_cls)
    for c in classes:
        if c != extra_cls:
            tally.add(c)


def rw_digest(obj) -> str:
    from vlib.mon import digest

    return digest(obj)


def contract_selftest(S: Session) -> str:
    """prove the icontract plumbing: in strict mode a broken invariant must surface as the explicit error="""
    out = S.fresh_rib()
    U = S.U
    a = [i for i in U['plain'] if U['routes'][i]['key'] == U['routes'][U['plain'][0]]['key']]
    before = dict(CM.failures)
    CM.strict = True
    try:
        try:
            out.add_to_rib(S.R[a[0]])
            out.add_to_rib(S.R[a[1]])
            out.add_to_rib(S.R[a[0]])
        except ContractEarlyWarning:
            return 'strict mode: ContractEarlyWarning raised by icontract on announce x, y, x (plumbing works, invariant is violated by the real code)'
        if CM.failures == before:
            return 'strict mode: invariants hold on announce x, y, x'
        return 'strict mode: failure recorded but icontract did not raise'
    finally:
        CM.strict = False
        CM.evaluations.clear()
        CM.failures.clear()
        CM.failures.update({})


def plan(tier, seed):
    if tier == 'quick':
        n, rand, maxlen = 16, 200, 4
    else:
        n, rand, maxlen = 64, 4700, 5
    out = [{'shard': i, 'shards': n, 'random': rand, 'maxlen': maxlen} for i in range(n)]
    # L2: the same kind of history as API text to a live session in the lab (the real Peer._main consumes the RIB)
    m = 8 if tier == 'quick' else 24
    out += [{'shard': 5000 + i, 'level2': True, 'part': i, 'cases': 4 if tier == 'quick' else 40} for i in range(m)]
    out += [{'shard': 6000 + i, 'nonip': True, 'part': i, 'cases': 150 if tier == 'quick' else 3000} for i in range(2)]
    out += [{'shard': 7000 + i, 'daemon': True, 'part': i, 'cases': 2 if tier == 'quick' else 10} for i in range(4 if tier == 'quick' else 8)]
    return out


# ---------------------------------------------------------------------------------------- L2: live session in the lab

L2_PREFIX = ['10.4.0.0/24', '10.4.1.0/24', '10.4.2.0/24', '10.4.3.0/24']
L2_VARIANT = [(nh, med) for nh in ('192.0.2.1', '192.0.2.2') for med in (1, 2, 3)]
L2_FILLER = ('192.0.2.9', 9)


def l2_case(r: random.Random, idx: int) -> dict:
    """API operations arriving at any time relative to the transmission of the initial batch and of one another. The one history
    shape recorded as a known finding of L1 (a prefix re-announced under an attribute set whose group was created earlier in
    the same flush window than the group it is queued under) is not generated: every mismatch L2 reports is a new one."""
    from vlib import scen  # noqa: F401

    nfill = r.choice([0, 30, 90])
    group = r.random() < 0.5
    cfg = {'hold': 90, 'families': [(1, 1)], 'adjout': True, 'api': True, 'group_updates': group,
           'route_texts': [f'route 10.8.{i}.0/24 next-hop {L2_FILLER[0]} med {L2_FILLER[1]};' for i in range(nfill)]}
    if r.random() < 0.25:
        cfg['rate_limit'] = r.choice([20, 100])
    intended = {f'10.8.{i}.0/24': L2_FILLER for i in range(nfill)}
    steps = [['accept', 30.0], ['establish']]
    ops = []
    order = [L2_FILLER] if nfill else []  # attribute groups in creation order within the current flush window
    queued = {}
    for _ in range(r.randrange(3, 14)):
        d = r.choice([0, 0, 0.001, 0.01, 0.05, 0.12, 0.3])
        if d:
            steps.append(['sleep', d])
        kind = r.choice(['announce', 'announce', 'announce', 'withdraw', 'withdraw', 'flush', 'clear', 'refresh', 'barrier'])
        if kind == 'announce':
            p = r.choice(L2_PREFIX)
            cands = list(L2_VARIANT)
            r.shuffle(cands)
            v = None
            for c in cands:
                if p in queued and queued[p] != c and c in order and order.index(c) < order.index(queued[p]):
                    continue  # the known stale-group shape
                v = c
                break
            if v is None:
                continue
            steps.append(['api', f'peer * announce route {p} next-hop {v[0]} med {v[1]}'])
            intended[p] = v
            queued[p] = v
            if v not in order:
                order.append(v)
            ops.append(('announce', p, v))
        elif kind == 'withdraw':
            p = r.choice(L2_PREFIX)
            steps.append(['api', f'peer * withdraw route {p} next-hop 192.0.2.1'])
            intended.pop(p, None)
            queued.pop(p, None)
            ops.append(('withdraw', p))
        elif kind == 'flush':
            steps.append(['api', 'rib flush out'])
            ops.append(('flush',))
        elif kind == 'clear':
            steps.append(['api', 'rib clear out'])
            intended = {}
            queued = {}
            ops.append(('clear',))
        elif kind == 'refresh':
            steps.append(['send', rw.message(rw.ROUTE_REFRESH, bytes([0, 1, 0, 1])).hex()])
            ops.append(('refresh',))
        else:
            steps.append(['wait_quiet', 1.0, 30.0])
            order, queued = [], {}
            ops.append(('barrier',))
    # bounded progress: with rate-limit the peer loop sends one route per iteration, an iteration waits up to 0.1 s for a
    # message from the peer: about ten routes a second. The bound is what the history asks to be sent at that pace, plus margin
    resends = 1 + sum(1 for o in ops if o[0] in ('flush', 'refresh'))
    bound = 40.0 + (0.15 * (nfill + 8) * resends if cfg.get('rate_limit') else 0.0)
    steps += [['wait_quiet', 2.0, bound], ['snapshot', 'end'], ['mark', 'end']]
    return {'config': cfg, 'steps': steps, 'vtimeout': 400.0 + bound, 'wall': 120.0, 'quantum': 0.0005, 'rx_limit': 70000, 'ops': ops, 'intended': intended, 'nfill': nfill, 'group': group}


def run_daemon(desc):
    """L3: the REAL daemon.  A real helper process plays bursts of announce / withdraw (one operation per prefix and burst,
    three attribute variants), `rib flush out` and `rib clear out`; between two bursts the observer waits until every command
    was acknowledged and the scripted peer has been quiet.  At the end: the table the peer built from the UPDATEs, the intent
    (last operation per prefix) and the prefixes `rib show out` reports are the same"""
    import json as _json
    import time

    from vlib import daemon

    res = Result()
    r = random.Random(desc['seed'] * 32416190071 % (2**31) + desc['part'])
    prefixes = ['10.%d.0.0/16' % i for i in range(1, 8)]
    variants = [('192.0.2.1', 10, ''), ('192.0.2.1', 20, ' community [ 65000:1 ]'), ('192.0.2.9', 10, '')]
    for ci in range(desc['cases']):
        model = {}
        script = '#sleep 1.0\n'
        nb = r.randrange(4, 10)
        for b in range(nb):
            x = r.random()
            if x < 0.12:
                script += 'rib flush out\n'
            elif x < 0.2:
                script += 'rib clear out\n'
                model.clear()
            else:
                for p in r.sample(prefixes, r.randrange(1, len(prefixes))):
                    if p in model and r.random() < 0.4:
                        nh, med, comm = model.pop(p)
                        script += f'peer * withdraw route {p} next-hop {nh}\n'
                    else:
                        nh, med, comm = r.choice(variants)
                        model[p] = (nh, med, comm)
                        script += f'peer * announce route {p} next-hop {nh} med {med}{comm}\n'
            script += f'#wait g{b}\n'
        script += 'rib show out\n'
        text = 'process player {\n    run @PY@ @DIR@/player.py @DIR@/script @DIR@/replies;\n    encoder json;\n}\n' + exa.neighbor_text(families=[(1, 1)], extra='    adj-rib-out true;\n    group-updates false;\n    api { processes [ player ]; }')
        d = daemon.Daemon(text, files={'script': script})
        wit = {'script': script, 'level': 'daemon'}
        peer = None
        rx = []
        try:
            d.start()
            peer = d.accept()
            peer.establish(65001)
            for b in range(nb):
                d.wait_lines('replies', lambda ls: any(x.startswith('["wait", "g%d"' % b) for x in ls), timeout=60)
                rx += peer.drain(quiet=0.3, limit=20)
                d.release(f'g{b}')
            d.wait_lines('replies', lambda ls: any(x.startswith('["end"') for x in ls), timeout=60)
            rx += peer.drain(quiet=0.5, limit=20)
            replies = [_json.loads(x) for x in d.lines('replies')]
        except daemon.Inconclusive as e:
            daemon.skipped(res, str(e))
            continue
        finally:
            try:
                if peer is not None:
                    peer.close()
            except Exception:  # noqa
                pass
            d.stop()
        if any(x[0] == 'timeout' for x in replies) or any(x[0] == 'got' and x[1].strip() == 'error' for x in replies):
            res.violation('C04/daemon:valid-operation-refused', 'an announce / withdraw / flush / clear of the history was answered error or not at all', dict(wit, replies=[x for x in replies if x[0] != 'sent'][-6:]), 'daemon')
            continue
        table = rw.PeerTable()
        try:
            for t, body in rx:
                if t == 2:
                    dec = rw.dec_update(bytes(body), rw.sess(asn4=True, addpath=()))
                    if not dec['eor']:
                        table.apply(dec)
        except rw.RefError as e:
            res.violation('C04/daemon:undecodable-update', str(e), wit, 'daemon')
            continue
        got = {}
        for key, v in table.routes.items():
            attrs = dict(v['attrs'])
            med = attrs.get(rw.MED)
            got[key[5]] = (v['nexthop'][0] if v['nexthop'] else None, int(med) if med is not None else None, ' community [ 65000:1 ]' if attrs.get(8) else '')
        shown = None
        for k, x in enumerate(replies):
            if x[0] == 'sent' and x[1] == 'rib show out':
                shown = []  # one JSON document per route, then the terminal line
                for y in replies[k + 1 :]:
                    if y[0] == 'got' and y[1].lstrip().startswith('{'):
                        try:
                            doc = _json.loads(y[1])
                            shown += [rt['prefix'] for nbr in doc.values() for rt in nbr.get('routes', [])]
                        except (ValueError, KeyError, AttributeError):
                            shown = None
                            break
                    elif y[0] == 'got' and y[1].strip() == 'done':
                        break
                shown = sorted(shown) if shown is not None else None
        wit.update(peer=sorted(got.items()), intent=sorted(model.items()), reported=shown)
        if got != model:
            p_ = sorted(set(got) ^ set(model)) or sorted(k for k in got if got[k] != model[k])
            kind = 'withdrawn-route-resurrected' if p_[0] in got and p_[0] not in model else 'announced-route-missing' if p_[0] not in got else 'stale-values'
            res.violation(f'C04/daemon:{kind}', f'{p_[0]}: the peer holds {got.get(p_[0])}, the last operation says {model.get(p_[0])}', wit, 'daemon')
        elif shown is None:
            res.count('daemon:rib-show-out-not-parsed')
            res.ok('daemon:history', ('daemon', nb))
        elif shown != sorted(model):
            res.violation('C04/daemon:reported-differs', f'`rib show out` reports {shown}, the peer holds {sorted(model)}', wit, 'daemon')
        else:
            res.ok('daemon:history', ('daemon', nb))
            res.ok('daemon:reported')
    return res


def run_nonip(desc):
    """families whose next hop lives in the route only, not in a NEXT_HOP attribute (l2vpn vpls): announce / re-announce with
    another next hop / withdraw, drained at random points; what the peer was last told == what the Adj-RIB-Out reports"""
    import struct

    from exabgp.reactor.api import API
    from vlib import corpus

    res = Result()
    exa.quiet()
    r = random.Random(desc['seed'] * 65537 + desc['part'])
    nb = list(exa.load_config(exa.neighbor_text(families=[(25, 65)], extra='    adj-rib-out true;')).neighbors.values())[0]
    neg = corpus.mirror_session(nb)
    api = API(None)
    sites = [(5, 10702), (6, 10800)]
    hops = ['192.168.201.1', '192.168.201.2', '192.168.201.3']

    def route(site, nh):
        ep, base = site
        rs = list(api.api_vpls(f'announce vpls endpoint {ep} base {base} offset 1 size 8 rd 192.168.201.1:123 next-hop {nh}'))
        return rs[0] if rs else None

    for case_i in range(desc['cases']):
        rib = nb.rib.outgoing
        rib.reset() if hasattr(rib, 'reset') else None
        rib.clear_cache() if hasattr(rib, 'clear_cache') else None
        peer = {}
        ops = []
        for _ in range(r.randrange(2, 9)):
            site = r.choice(sites)
            kind = r.choice(['announce', 'announce', 'announce', 'withdraw'])
            nh = r.choice(hops)
            x = route(site, nh)
            if x is None:
                res.inconclusive.append('vpls route text refused')
                return res
            x = nb.resolve_self(x)
            if kind == 'announce':
                rib.add_to_rib(x)
            else:
                rib.del_from_rib(x)
            ops.append((kind, site[0], nh))
            if r.random() < 0.6:
                ops.append(('drain',))
                for upd in rib.updates(nb.group_updates):
                    for raw in upd.messages(neg, True):
                        wd, ab, nl = rw.split_update(raw[19:])
                        for flags, code, value in rw.dec_attr_tlvs(ab):
                            if code == 14 and value[:3] == struct.pack('!HB', 25, 65):
                                nhl = value[3]
                                hop = '.'.join(str(b) for b in value[4 : 4 + nhl][-4:])
                                body = value[4 + nhl + 1 :]
                                for i in range(0, len(body), 19):
                                    peer[bytes(body[i : i + 19])] = hop
                            elif code == 15 and value[:3] == struct.pack('!HB', 25, 65):
                                body = value[3:]
                                for i in range(0, len(body), 19):
                                    peer.pop(bytes(body[i : i + 19]), None)
        for upd in rib.updates(nb.group_updates):
            for raw in upd.messages(neg, True):
                wd, ab, nl = rw.split_update(raw[19:])
                for flags, code, value in rw.dec_attr_tlvs(ab):
                    if code == 14 and value[:3] == struct.pack('!HB', 25, 65):
                        nhl = value[3]
                        hop = '.'.join(str(b) for b in value[4 : 4 + nhl][-4:])
                        body = value[4 + nhl + 1 :]
                        for i in range(0, len(body), 19):
                            peer[bytes(body[i : i + 19])] = hop
                    elif code == 15 and value[:3] == struct.pack('!HB', 25, 65):
                        body = value[3:]
                        for i in range(0, len(body), 19):
                            peer.pop(bytes(body[i : i + 19]), None)
        reported = {bytes(x.nlri.pack_nlri(neg)): str(x.nexthop) for x in rib.cached_routes()}
        wit = {'ops': ops, 'peer': {k.hex(): v for k, v in peer.items()}, 'reported': {k.hex(): v for k, v in reported.items()}}
        if peer != reported:
            k = sorted(set(peer) | set(reported), key=lambda b: (peer.get(b) == reported.get(b), b))[0]
            kind = 'missing-at-peer' if k not in peer else 'not-reported' if k not in reported else 'nexthop-differs'
            res.violation(f'C04/nonip-peer-vs-reported:{kind}:vpls', f'vpls route {k.hex()[20:32]}: the peer holds next hop {peer.get(k)}, ExaBGP reports {reported.get(k)}', wit, 'nonip:vpls')
        else:
            res.ok('nonip:vpls', ('vpls', tuple(o[0] for o in ops)))
    return res


def run_level2(desc):
    import re

    from vlib import scen

    res = Result()
    r = random.Random(desc['seed'] * 48611 + desc['part'])
    for ci in range(desc['cases']):
        case = l2_case(r, ci)
        status, rec = scen.run_case(case)
        cls = 'L2:' + ('group' if case['group'] else 'single') + (':rate-limit' if case['config'].get('rate_limit') else '')
        if status != 'ok':
            res.inconclusive.append(f'L2 case: lab {status} {str(rec)[:200]}')
            continue
        marks = {e['name'] for e in rec['events'] if e['kind'] == 'mark'}
        snaps = [e['snap'] for e in rec['events'] if e['kind'] == 'snapshot']
        if 'end' not in marks or not snaps or any(n[1] in ('no-connection', 'not-established') for n in rec['notes']):
            res.inconclusive.append(f'L2 case did not complete: {rec["notes"]}')
            continue
        sess = rec['sessions'][0]
        last_rx = sess['rx'][-1][0] if sess['rx'] else 0.0
        if rec['end'] - last_rx < 1.5:
            res.count('L2-case-not-judged:line-not-quiet-at-the-bound')  # nothing can be said about a queue which is still draining
            continue
        wit = {'ops': case['ops'], 'nfill': case['nfill'], 'group_updates': case['group'], 'rate_limit': case['config'].get('rate_limit'), 'api': [s_[1] for s_ in case['steps'] if s_[0] == 'api'][:40]}
        if sess['eof_at'] is not None:
            res.violation('C04/L2-session-lost', 'the session ended during the history', wit, cls)
            continue
        if rec['helper_rx'].count('\nerror') or rec['helper_rx'].startswith('error'):
            res.inconclusive.append('L2: an API command of the history was refused')
            continue
        table = rw.PeerTable()
        sx = rw.sess(asn4=True, addpath=())
        bad = None
        for t, ty, body in sess['rx']:
            if ty != rw.UPDATE:
                continue
            if '..' in body:
                bad = 'record holds a truncated body'
                break
            try:
                d = rw.dec_update(bytes.fromhex(body), sx)
            except rw.RefError as e:
                bad = str(e)
                break
            if not d['eor']:
                table.apply(d)
        if bad:
            res.violation('C04/L2-undecodable-update', bad, wit, cls)
            continue
        peer = {}
        for key, v in table.routes.items():
            med = dict(v['attrs']).get(rw.MED)
            peer[key[5]] = (v['nexthop'][0] if v['nexthop'] else None, int(med) if med is not None else None)
        reported = {}
        for lst in snaps[-1]['rib_out'].values():
            for text in lst:
                m = re.match(r'^(\S+) next-hop (\S+)(?:.*? med (\d+))?', text)
                if m:
                    reported[m.group(1)] = (m.group(2), int(m.group(3)) if m.group(3) else None)
        intended = dict(case['intended'])
        wit.update(peer=sorted(peer.items())[:12] if len(peer) < 40 else f'{len(peer)} routes', reported=sorted(reported.items())[:12] if len(reported) < 40 else f'{len(reported)} routes')

        def diff(a, b):
            return sorted(k for k in set(a) | set(b) if a.get(k) != b.get(k))

        d_pr = diff(peer, reported)
        d_ri = diff(reported, intended)
        if d_pr:
            k = d_pr[0]
            kind = 'missing-at-peer' if k not in peer else 'not-reported' if k not in reported else 'differs'
            res.violation(f'C04/L2-peer-vs-reported:{kind}', f'{k}: the peer holds {peer.get(k)}, ExaBGP reports {reported.get(k)} (asked: {intended.get(k)})', dict(wit, prefix=k), cls)
        elif d_ri:
            k = d_ri[0]
            res.violation(f'C04/L2-reported-vs-intended:{"missing" if k not in reported else "extra" if k not in intended else "differs"}', f'{k}: ExaBGP reports {reported.get(k)}, the operations ask for {intended.get(k)}', dict(wit, prefix=k), cls)
        else:
            res.ok(cls, ('L2', case['group'], case['nfill'], tuple(o[0] for o in case['ops'])))
            for o in case['ops']:
                res.ok('L2-op:' + o[0])
        res.sample({'level': 'L2', 'ops': [o[0] for o in case['ops']], 'routes_at_peer': len(peer)}, limit=2)
    return res


def run_shard(desc):
    if desc.get('daemon'):
        return run_daemon(desc)
    if desc.get('nonip'):
        return run_nonip(desc)
    if desc.get('level2'):
        return run_level2(desc)
    res = Result()
    exa.quiet()
    import exabgp

    res.extra['exabgp_file'] = [exabgp.__file__]
    try:
        attach_contracts()
        res.extra['contracts_attached'] = list(CM.attached)
    except Exception as e:  # noqa: BLE001
        res.extra['contracts_attached'] = [f'FAILED {type(e).__name__}: {e}']
    try:
        small = Session('small', False)
        full = {False: Session('full', False), True: Session('full', True)}
    except Inconclusive as e:
        res.inconclusive.append(str(e))
        return res
    if desc['shard'] == 0 and CM.attached:
        res.extra['contract_plumbing_selftest'] = [contract_selftest(small)]
    tally = Tally()
    stats = {k: 0 for k in ('messages', 'sync_early', 'warned-and-violated', 'warned-not-violated', 'violated-not-warned', 'violating_histories', 'minimisation_runs', 'watchdog_reload_unspecified', 'contracts-on-histories')}

    # ---- exhaustive small space, sharded by index (contracts on for lengths <= 3 and one history in 8 beyond)
    ops = small_alphabet(small.U)
    wd = list(small.U['wd'])
    enumerated = 0
    for group in (True, False):
        for length in range(1, desc['maxlen'] + 1):
            if length == 5 and not group:
                continue  # thorough: length 5 with group-updates on only (see RULE)
            total = len(ops) ** length * len(SMALL_EATS) ** (length - 1)
            n = 0
            for index in range(desc['shard'], total, desc['shards']):
                if CM.attached:
                    contracts(length <= 3 or n % 8 == 0)
                n += 1
                case = {'group': group, 'start': 'fresh', 'config': wd, 'hist': small_history(ops, length, index)}
                judge(res, small, case, tally, f'enum:len{length}', stats)
                enumerated += 1
    res.extra['enumerated_histories'] = enumerated
    if CM.attached:
        contracts(True)

    # ---- seeded random histories over the full universe
    rnd = random.Random(desc['seed'] * 7919 + desc['shard'] * 104729 + 17)
    for i in range(desc['random']):
        S = full[(i + desc['shard']) % 2 == 1]
        case = random_case(rnd, S)
        judge(res, S, case, tally, 'random:len%s' % ('1-4' if len(case['hist']) <= 4 else '5-12'), stats)
    res.extra['random_histories'] = desc['random']

    for cls, n in tally.classes.items():
        res.ok(cls, n=n)
    for k, v in stats.items():
        res.count(k.replace('_', '-'), v)
    res.extra['contract_evaluations'] = dict(CM.evaluations)
    res.extra['contract_failures'] = dict(CM.failures)
    for name, n in CM.failures.items():
        res.count('contract-early-warning:' + name, n)
    return res


def finish(merged, tier, seed):
    ex = merged['extra']
    maxlen = 4 if tier == 'quick' else 5
    nops = 12
    size = 2 * small_space_size(nops, 4)  # group-updates on and off
    if maxlen == 5:
        size += nops**5 * 3**4  # length 5: group-updates on
    ex['small_space_size'] = size
    ex['small_space_definition'] = (
        f'{nops} operations ^ k x 3 consumption steps ^ (k-1), k = 1..4, group-updates on and off' + (', k = 5 with group-updates on' if maxlen == 5 else '')
    )
    ex['exhaustive_small_space'] = bool(ex.get('enumerated_histories') == size and not merged['failed'])
    if not ex['exhaustive_small_space']:
        merged['inconclusive'].append(f'small space not enumerated completely: {ex.get("enumerated_histories")} of {size}')
    ev = ex.get('contract_evaluations', {})
    wanted = ['queued-announce-in-exactly-one-attribute-group', 'no-attribute-group-entry-without-queued-announce', 'withdrawn-index-not-left-queued-for-announce']
    ex['contracts_not_exercised'] = [n for n in wanted if not ev.get(n)]
    ex['contracts_note'] = 'early warnings only, not the verdict; evaluation and failure counts in contract_evaluations / contract_failures'
    keys = sorted({v['key'] for v in merged['violations']})
    ex['violation_keys'] = keys
    ex['info_notes'] = {
        'sync-early': 'generator exhaustions that fired a flush callback registered by an announce/withdraw whose own change was still queued '
        '(sync mode answers before the change is on the wire); outside the statement of C04, logged only',
        'watchdog-reload-unspecified': 'histories where a configuration was re-read while a watchdog had toggled a member: INTENDED is not compared on that key',
        'warned-not-violated': 'histories (contracts on) where a structural invariant of the queue broke but the three tables still agreed once drained',
        'violated-not-warned': 'histories (contracts on) where the tables disagreed without any structural early warning',
        'key_naming': 'C04/<class>:<pattern of the delta-debugged minimal history> when it has <= 3 operations + configured routes, '
        'else C04/<class>:long:<operation kinds left>; x,y,z = distinct (attributes, next hop) values, A,B = distinct (family, path-id, prefix)',
    }


REQUIRED_CLASSES = {
    'quick': [
        'op:announce',
        'op:withdraw',
        'op:clear',
        'op:refresh',
        'op:refresh-enhanced',
        'op:wd-announce',
        'op:wd-withdraw',
        'op:reload',
        'op:restart',
        'op:restart-new-configuration',
        'consume:none',
        'consume:partial',
        'consume:drain',
        'consume:abandon',
        'group:on',
        'group:off',
        'family:ipv4-unicast',
        'family:ipv6-unicast',
        'addpath:on',
        'addpath:off',
        'start:fresh',
        'start:mid',
        'enum:len1',
        'enum:len2',
        'enum:len3',
        'enum:len4',
        'random:len1-4',
        'random:len5-12',
        'L2-op:announce',
        'L2-op:withdraw',
        'L2-op:flush',
        'L2-op:clear',
        'nonip:vpls',
        'daemon:history',
    ],
}
REQUIRED_CLASSES['thorough'] = REQUIRED_CLASSES['quick'] + ['enum:len5']
