"""C10 - every protocol error is answered with the right NOTIFICATION, once.

Lab: real Reactor/Peer/Protocol over loopback TCP under a virtual clock; the scripted remote speaker brings
the session to a chosen state, injects one fault from a catalogue and records every byte it receives until
the connection closes. Oracle (refwire framing + RFC 4271 section 6 / 6608 / 7313 tables): after the
injection exactly one NOTIFICATION, it is the last message, its code/subcode is in the class of the fault,
the connection is then closed; after a *received* NOTIFICATION nothing is answered.
"""

from __future__ import annotations

import random
import struct

from vlib import refwire as rw
from vlib import scen
from vlib.mon import Result

PROPERTY = 'C10'
LEVEL = 'fault_enumeration'
RULE = (
    'fault catalogue (header, OPEN, UPDATE, refresh, unexpected type, received NOTIFICATION well-formed/truncated/'
    'over-long, hold timer expiry, API teardown, shutdown) x session state at injection {OpenSent, OpenConfirm, '
    'Established idle, Established mid-batch} x {active, passive} enumerated completely in both tiers; thorough adds '
    'random mutated messages. distinct = distinct (fault, state, mode, outcome) tuples'
)
ASSUMPTIONS = [
    'messages ExaBGP had already queued before it read the fault may precede the NOTIFICATION; the NOTIFICATION must be the last message',
    'a malformed ROUTE-REFRESH length may be answered 7/1 (RFC 7313) or 1/2 (RFC 4271 header check)',
    'with graceful restart configured an API teardown closes without NOTIFICATION by design (accepted)',
    'an OPEN received while Established that does not end the session is logged, not flagged (the statement is conditional on ending the session)',
]
MANIFEST = {
    'level': 'fault_enumeration',
    'technique': 'runtime monitoring in a virtual-clock session lab: fault injection by a scripted remote BGP speaker, offline checker over the recorded byte/ event log; the catalogue of message faults also sent over TCP to the real exabgp process, one fresh connection per (fault, state)',
    'text': 'The (fault kind x session state x active/passive) matrix is enumerated completely against the real reactor over '
    'loopback TCP; for every cell the bytes the remote receives after the injection are framed by the reference and '
    'checked for exactly-one, last, correctly coded NOTIFICATION followed by close. Exhaustive for the catalogue, not for all inputs.',
    'note': 'trusted base: refwire framing, the fault->code table written from RFC 4271 s6/RFC 6608/RFC 7313, the virtual clock loop; loopback TCP stands in for the network',
}
SHARD_TIMEOUT = {'quick': 600, 'thorough': 2400}

HDR = lambda length, t, body=b'': rw.MARKER + struct.pack('!HB', length, t) + body  # noqa: E731


RACE_DELAYS = (0, 0.001, 0.004, 0.01, 0.03, 0.06, 0.09, 0.11, 0.2)


def bad_marker():
    m = bytearray(rw.keepalive())
    m[5] = 0
    return bytes(m)


def upd(withdrawn=b'', attrs=b'', nlri=b''):
    return rw.enc_update(withdrawn, attrs, nlri)


BASE_ATTRS = rw.enc_attr(0x40, 1, b'\0') + rw.enc_attr(0x40, 2, rw.v_aspath([(2, [65001])], True)) + rw.enc_attr(0x40, 3, bytes([192, 0, 2, 9]))


def bad_update(kind):
    if kind == 'withdrawn-overrun':
        body = struct.pack('!H', 200) + b'\0\0'
        return rw.message(rw.UPDATE, body)
    if kind == 'attrlen-overrun':
        body = struct.pack('!H', 0) + struct.pack('!H', 300) + BASE_ATTRS
        return rw.message(rw.UPDATE, body)
    if kind == 'dup-mpreach':
        n = rw.mk_nlri(2, 1, '2001:db8::/32')
        mp = rw.enc_mp_reach(2, 1, ['2001:db8::1'], [n], False)
        return upd(b'', rw.enc_attr(0x40, 1, b'\0') + rw.enc_attr(0x40, 2, rw.v_aspath([(2, [65001])], True)) + mp + mp, b'')
    raise ValueError(kind)


def open_body(**k):
    base = dict(asn2=65001, hold=90, rid='10.0.0.2', caps=[rw.cap_mp(1, 1), rw.cap_mp(2, 1), rw.cap_asn4(65001)])
    base.update(k)
    return rw.message(rw.OPEN, rw.enc_open_body(base['asn2'], base['hold'], base['rid'], base['caps'], version=base.get('version', 4), raw_params=base.get('raw_params')))


# fault -> (bytes, applicable states, expected {(code, sub)} by state or for all)
def catalogue():
    good_open = open_body()
    c = {}
    allst = ('opensent', 'openconfirm', 'established', 'midbatch')
    c['hdr-marker'] = (bad_marker(), allst, {'*': {(1, 1)}})
    c['hdr-len18'] = (HDR(18, 4), allst, {'*': {(1, 2)}})
    c['hdr-len-over-max'] = (HDR(4097, 2), allst, {'*': {(1, 2)}})
    c['hdr-ka-len20'] = (HDR(20, 4, b'\0'), allst, {'*': {(1, 2)}})
    c['hdr-update-len22'] = (HDR(22, 2, b'\0\0\0'), allst, {'*': {(1, 2)}})
    c['hdr-type0'] = (HDR(19, 0), allst, {'*': {(1, 3)}})
    c['hdr-type9'] = (HDR(21, 9, b'ab'), allst, {'*': {(1, 3)}})
    c['hdr-type255'] = (HDR(19, 255), allst, {'*': {(1, 3)}})
    c['open-version3'] = (open_body(version=3), ('opensent',), {'*': {(2, 1)}})
    c['open-bad-as'] = (open_body(asn2=65009, caps=[rw.cap_mp(1, 1), rw.cap_asn4(65009)]), ('opensent',), {'*': {(2, 2)}})
    c['open-rid-zero'] = (open_body(rid='0.0.0.0'), ('opensent',), {'*': {(2, 3)}})
    c['open-hold-1'] = (open_body(hold=1), ('opensent',), {'*': {(2, 6)}})
    c['open-hold-2'] = (open_body(hold=2), ('opensent',), {'*': {(2, 6)}})
    # the same unacceptable hold times offered to a speaker which itself proposes 0 (the negotiated value is then 0, the offer is still 1 or 2)
    c['open-hold-1:lh0'] = (open_body(hold=1), ('opensent',), {'*': {(2, 6)}})
    c['open-hold-2:lh0'] = (open_body(hold=2), ('opensent',), {'*': {(2, 6)}})
    c['open-unknown-param'] = (open_body(raw_params=bytes([4, 9, 2, 0, 0])), ('opensent',), {'*': {(2, 4)}})
    c['open-short'] = (HDR(28, 1, b'\4' + b'\0' * 8), ('opensent',), {'*': {(1, 2)}})
    c['open-trunc-params'] = (open_body(raw_params=bytes([6, 2, 6, 1, 4, 0, 1])), ('opensent',), {'*': {(2, 0), (2, 4), (1, 2)}})
    c['update-withdrawn-overrun'] = (bad_update('withdrawn-overrun'), ('established', 'midbatch'), {'*': {(3, 1)}})
    c['update-attrlen-overrun'] = (bad_update('attrlen-overrun'), ('established', 'midbatch'), {'*': {(3, 1)}})
    c['update-dup-mpreach'] = (bad_update('dup-mpreach'), ('established', 'midbatch'), {'*': {(3, 1)}})
    c['refresh-len24'] = (HDR(24, 5, b'\0\1\0\1\0'), ('established',), {'*': {(7, 1), (1, 2)}})
    c['refresh-len22'] = (HDR(22, 5, b'\0\1\0'), ('established',), {'*': {(7, 1), (1, 2)}})
    c['unexpected-keepalive'] = (rw.keepalive(), ('opensent',), {'*': {(5, 1)}})
    c['unexpected-update'] = (scen.simple_update(1), ('opensent', 'openconfirm'), {'opensent': {(5, 1)}, 'openconfirm': {(5, 2)}})
    c['unexpected-open'] = (good_open, ('openconfirm', 'established'), {'openconfirm': {(5, 2)}, 'established': {(5, 3)}})
    c['unexpected-refresh'] = (HDR(23, 5, b'\0\1\0\1'), ('opensent', 'openconfirm'), {'opensent': {(5, 1)}, 'openconfirm': {(5, 2)}})
    # received NOTIFICATION: nothing is answered
    c['notif-wellformed'] = (rw.notification(6, 2, b'bye'), allst, {'*': 'silent'})
    c['notif-nodata'] = (rw.notification(6, 4), allst, {'*': 'silent'})
    c['notif-overlong'] = (rw.notification(3, 1, bytes(range(256)) * 3), allst, {'*': 'silent'})
    c['notif-binary-data'] = (rw.notification(1, 2, b'\xff\xfe\x00\x80'), allst, {'*': 'silent'})
    c['notif-unknown-code'] = (rw.notification(99, 77, b'\x01'), allst, {'*': 'silent'})
    # a NOTIFICATION longer than 4096 octets is legal once extended messages are negotiated (RFC 8654 exempts OPEN and KEEPALIVE only)
    c['notif-5000-octets:ext'] = (rw.notification(3, 1, bytes(range(256)) * 19 + bytes(115)), ('established',), {'*': 'silent'})
    # timers / API
    c['hold-expiry'] = (None, ('established',), {'*': {(4, 0)}})
    c['api-teardown-4'] = (None, ('established',), {'*': {(6, 4)}})
    c['api-teardown-2'] = (None, ('established', 'midbatch'), {'*': {(6, 2)}})
    c['shutdown'] = (None, ('established',), {'*': {(6, 2), (6, 3), (6, 0)}})
    # two reasons to end the session within one read window of the peer loop (0.1 s): an API teardown and, d seconds later,
    # a NOTIFICATION (or a header fault) from the peer. Whatever the order ExaBGP sees them in: at most one NOTIFICATION, and
    # none written once the peer's NOTIFICATION has been read
    for d in RACE_DELAYS:
        c[f'race-teardown+notif:{d}'] = (rw.notification(4, 0), ('established',), {'*': 'race'})
        c[f'race-teardown+marker:{d}'] = (bad_marker(), ('established',), {'*': 'race'})
    for d in (0.85, 0.95, 1.0, 1.05, 1.15):
        c[f'race-hold+notif:{d}'] = (rw.notification(6, 2, b'bye'), ('established',), {'*': 'race'})
    return c


def build_case(fault, state, mode, cat, gr=False):
    data, states, exp = cat[fault]
    cfg = {
        'las': 65000,
        'pas': 65001,
        'hold': 6 if fault == 'hold-expiry' else 3 if fault.startswith('race-hold') else 0 if fault.endswith(':lh0') else 90,
        'families': [(1, 1), (2, 1)],
        'adjin': True,
        'api': fault.startswith('api-') or fault.startswith('race-teardown'),
        'listen': mode == 'passive',
        'passive': mode == 'passive',
        'routes': 1200 if state == 'midbatch' else 2,
        'group_updates': False if state == 'midbatch' else None,
        'gr': 120 if gr else None,
        'extmsg': fault.endswith(':ext'),
    }
    steps = []
    first = ['connect'] if mode == 'passive' else ['accept', 20.0]
    steps.append(first)
    if state == 'opensent':
        steps.append(['wait_msg', rw.OPEN, 10.0])
    elif state == 'openconfirm':
        steps += [['wait_msg', rw.OPEN, 10.0], ['open'], ['wait_msg', rw.KEEPALIVE, 10.0]]
    elif state == 'established':
        steps += [['establish'], ['wait_quiet', 1.0, 20.0]]
    elif state == 'midbatch':
        steps += [['establish'], ['wait_msg', rw.UPDATE, 20.0, 30]]
    steps.append(['mark', 'inject'])
    if fault.startswith('race-teardown'):
        d = float(fault.rsplit(':', 1)[1])
        steps.append(['api', 'peer 127.0.0.1 teardown 4'])
        if d:
            steps.append(['sleep', d])
        steps.append(['send', data.hex()])
        steps.append(['wait_closed', 15.0])
    elif fault.startswith('race-hold'):
        d = float(fault.rsplit(':', 1)[1])
        steps[-1:] = [['ka'], ['mark', 'inject'], ['sleep', 3.0 + d], ['send', data.hex()], ['wait_closed', 15.0]]
    elif data is not None:
        steps.append(['send', data.hex()])
        steps.append(['wait_closed', 15.0])
    elif fault == 'hold-expiry':
        steps.append(['wait_closed', 20.0])
    elif fault.startswith('api-teardown'):
        steps.append(['api', f'peer 127.0.0.1 teardown {fault.rsplit("-", 1)[1]}'])
        steps.append(['wait_closed', 15.0])
    elif fault == 'shutdown':
        steps.append(['shutdown', 5.0])
        steps.append(['wait_closed', 5.0])
    steps.append(['sleep', 0.5])
    return {'config': cfg, 'steps': steps, 'vtimeout': 200.0, 'wall': 90.0, 'fault': fault, 'state': state, 'mode': mode, 'gr': gr}


def all_cases(tier, seed):
    cat = catalogue()
    cases = []
    for fault, (data, states, exp) in cat.items():
        for state in states:
            for mode in ('active', 'passive'):
                cases.append(build_case(fault, state, mode, cat))
    # the whole catalogue once more with debug logging on (every log call evaluates its lazy message): formatters run on peer data
    for fault, (data, states, exp) in cat.items():
        st = 'established' if 'established' in states else states[0]
        c = build_case(fault, st, 'active', cat)
        c['loud'] = True
        cases.append(c)
    # graceful restart configured: API teardown may close silently
    cases.append(build_case('api-teardown-4', 'established', 'active', cat, gr=True))
    cases.append(build_case('hdr-marker', 'established', 'active', cat, gr=True))
    return cases


def plan(tier, seed):
    n = len(all_cases(tier, seed))
    shards = 16
    return [{'shard': i, 'nshards': shards, 'ncases': n} for i in range(shards)] + [{'shard': 900 + i, 'daemon': True, 'part': i, 'parts': 4} for i in range(4)]


def judge(res: Result, case, rec):
    cat = catalogue()
    fault, state, mode = case['fault'], case['state'], case['mode']
    data, states, exp = cat[fault]
    want = exp.get(state, exp.get('*'))
    cls = f'{fault}:{state}' + (':debug-log' if case.get('loud') else '')
    if case.get('loud') and not rec.get('log_evaluated'):
        res.inconclusive.append(f'{cls}: debug logging case evaluated no log message')
        return
    wit = {'case': {k: case.get(k) for k in ('fault', 'state', 'mode', 'gr', 'steps', 'config', 'loud')}, 'notes': rec['notes']}
    marks = [e for e in rec['events'] if e['kind'] == 'mark' and e.get('name') == 'inject']
    if not marks or marks[0].get('session') is None:
        res.inconclusive.append(f'{cls}/{mode}: injection point never reached {rec["notes"]}')
        return
    pre = [n for n in rec['notes'] if n[1] in ('no-connection', 'connect-failed', 'not-established') or n[1].startswith('no-message')]
    if pre:
        res.inconclusive.append(f'{cls}/{mode}: could not reach state: {pre}')
        return
    t_inj = marks[0]['t']
    sid = marks[0]['session']
    sess = rec['sessions'][sid]
    after = [m for m in sess['rx'] if m[0] >= t_inj]
    notifs = [m for m in after if m[1] == rw.NOTIFICATION]
    wit.update(t_inj=t_inj, received_after=[[m[0], m[1], m[2][:16]] for m in after][-12:], eof_at=sess['eof_at'], tail=sess['rx_tail'])
    # write tap: nothing written on a connection after a NOTIFICATION
    seen_notif = {}
    for e in rec['events']:
        if e['kind'] == 'write':
            if e['conn'] in seen_notif:
                res.violation('C10/write-after-notification', f'type {e["mtype"]} written on a connection after a NOTIFICATION', dict(wit, event=e), cls)
                return
            if e['mtype'] == rw.NOTIFICATION:
                seen_notif[e['conn']] = e['seq']
    # read tap: once a NOTIFICATION has been read from a connection nothing at all is written to it
    read_notif = {}
    for e in rec['events']:
        if e['kind'] == 'read' and e['mtype'] == rw.NOTIFICATION and not e.get('fault'):
            read_notif.setdefault(e['conn'], e['seq'])
        elif e['kind'] == 'write' and e['conn'] in read_notif and e['seq'] > read_notif[e['conn']]:
            kind = 'NOTIFICATION' if e['mtype'] == rw.NOTIFICATION else f'type {e["mtype"]}'
            res.violation(f'C10/answers-notification:wrote-after-reading-it:{"notification" if e["mtype"] == rw.NOTIFICATION else "other"}', f'{kind} written on a connection after the peer\'s NOTIFICATION had been read from it', dict(wit, event=e), cls)
            return
    if sess['rx_tail']:
        res.violation('C10/partial-message-written', 'connection closed with a partial message written', wit, cls)
        return
    if want == 'race':
        kind = fault.split(':')[0]
        if len(notifs) > 1:
            res.violation(f'C10/two-notifications:{kind}', f'{len(notifs)} NOTIFICATIONs written', wit, cls)
        elif sess['eof_at'] is None:
            res.violation(f'C10/session-not-ended:{kind}', 'two reasons to end the session, connection still open', wit, cls)
        elif notifs and after[-1][1] != rw.NOTIFICATION:
            res.violation(f'C10/message-after-notification:{kind}', f'message type {after[-1][1]} received after the NOTIFICATION', wit, cls)
        else:
            got = None
            if notifs:
                b = bytes.fromhex(notifs[0][2].split('..')[0])
                got = (b[0], b[1])
            allowed = {'race-teardown+notif': {None, (6, 4)}, 'race-teardown+marker': {(6, 4), (1, 1)}, 'race-hold+notif': {None, (4, 0)}}[kind]
            if got not in allowed:
                res.violation(f'C10/wrong-code:{kind}:got{got}', f'{fault}: answered {got}, allowed {sorted(allowed, key=str)}', wit, cls)
            else:
                res.ok(cls, (kind, mode, got))
                res.count(f'race-outcome:{kind}:{got}')
        return
    if want == 'silent':
        if notifs:
            res.violation(f'C10/answers-notification:{state}', f'a received NOTIFICATION was answered with {notifs[0][2][:4]}', wit, cls)
        elif sess['eof_at'] is None:
            res.violation(f'C10/no-close-after-notification:{state}', 'connection not closed after a received NOTIFICATION', wit, cls)
        else:
            res.ok(cls, (fault, state, mode, 'silent-close'))
        return
    if fault == 'unexpected-open' and state == 'established' and not notifs and sess['eof_at'] is None:
        res.count('open-in-established-ignored')
        res.ok(cls, (fault, state, mode, 'ignored'))
        return
    if case.get('gr') and fault.startswith('api-teardown') and not notifs and sess['eof_at'] is not None:
        res.ok(cls + ':gr', (fault, state, mode, 'gr-silent-close'))
        return
    if fault == 'shutdown' and not notifs:
        # a daemon shutdown is neither 'something received' nor a timer: outside the statement, logged only
        res.count('shutdown-closes-without-notification')
        res.ok(cls, (fault, state, mode, 'silent-close'))
        return
    if not notifs:
        if sess['eof_at'] is None:
            res.violation(f'C10/session-not-ended:{fault}', f'fault {fault} in {state}: no NOTIFICATION and connection still open', wit, cls)
        else:
            res.violation(f'C10/closed-without-notification:{fault}:{state}', f'fault {fault} in {state}: connection closed without NOTIFICATION', wit, cls)
        return
    if len(notifs) > 1:
        res.violation(f'C10/two-notifications:{fault}', f'{len(notifs)} NOTIFICATIONs written', wit, cls)
        return
    if after[-1][1] != rw.NOTIFICATION:
        res.violation(f'C10/message-after-notification:{fault}', f'message type {after[-1][1]} received after the NOTIFICATION', wit, cls)
        return
    body = bytes.fromhex(notifs[0][2].split('..')[0])
    got = (body[0], body[1])
    if got not in want:
        res.violation(f'C10/wrong-code:{fault}:{state}:got{got[0]}/{got[1]}', f'fault {fault} in {state} answered {got}, RFC class {sorted(want)}', wit, cls)
        return
    if sess['eof_at'] is None:
        res.violation(f'C10/no-close-after-notification-sent:{fault}', 'connection left open after sending a NOTIFICATION', wit, cls)
        return
    res.ok(cls, (fault, state, mode, got))
    res.count(f'code:{got[0]}/{got[1]}')


def run_daemon(desc):
    """the catalogue of protocol errors sent over TCP to the REAL daemon process, one fresh connection per (fault, state): the
    NOTIFICATION it answers with (code, subcode), how many, and that it closes afterwards and comes back for the next one"""
    import time

    from vlib import daemon, exa

    res = Result()
    cat = catalogue()
    cells = [(f, st) for f, (data, states, exp) in cat.items() for st in states if data is not None and st != 'midbatch' and not f.startswith('race-') and not f.endswith(':lh0') and not f.endswith(':ext')]
    mine = [c for i, c in enumerate(cells) if i % desc['parts'] == desc['part']]
    text = exa.neighbor_text(families=[(1, 1), (2, 1)], extmsg=False, hold=90, extra='    adj-rib-in true;')
    d = daemon.Daemon(text, env={'exabgp_log_level': 'ERROR'})
    good = open_body()
    peer = None
    try:
        d.start()
        for fault, st in mine:
            data, states, exp = cat[fault]
            want = exp.get(st, exp.get('*'))
            cls = f'daemon:{fault}:{st}'
            wit = {'fault': fault, 'state': st, 'sent': data.hex()[:400], 'expected': sorted(want) if want != 'silent' else 'silent', 'level': 'daemon'}
            peer = d.accept(timeout=60)
            t, body = peer.read_message(20)
            if t != 1:
                raise daemon.Inconclusive(f'no OPEN from the daemon on a new connection ({t})')
            if st in ('openconfirm', 'established'):
                peer.conn.sendall(good)
                if st == 'established':
                    peer.send(4)
                t, body = peer.read_message(20)
                if t != 4:
                    raise daemon.Inconclusive(f'no KEEPALIVE after the OPENs ({t} {bytes(body)[:8].hex()})')
                if st == 'established':
                    peer.drain(quiet=0.3, limit=5)
            try:
                peer.conn.sendall(data)
            except OSError:
                pass
            notifs = []
            closed = False
            end = time.monotonic() + 25
            while time.monotonic() < end:
                t, body = peer.read_message(1.0)
                if t == 3:
                    notifs.append((body[0], body[1]))
                elif t is None:
                    closed = True
                    break
            peer.close()
            peer = None
            wit['received'] = notifs
            log = d.tail(3000)
            if not d.alive():
                res.violation(f'C10/daemon:process-exits:{fault}', 'the daemon exited after a protocol error', dict(wit, log=log[-1500:]), cls)
                return res
            if 'exception.unhandled' in log or 'Traceback' in log:
                res.violation(f'C10/daemon:unhandled-exception:{fault}:{st}', 'the daemon logged an unhandled exception: ' + log[log.find('Traceback') : log.find('Traceback') + 300], dict(wit, log=log[-2500:]), cls)
                return res
            if fault == 'unexpected-open' and st == 'established' and not notifs and not closed:
                res.count('daemon:open-in-established-ignored')  # same reading as in the lab (see judge)
                res.ok(cls, ('daemon', fault, st, 'ignored'))
                continue
            if not closed:
                res.violation(f'C10/daemon:connection-left-open:{fault}:{st}', f'25 s after {fault} in {st} the connection is still open (NOTIFICATIONs received: {notifs})', wit, cls)
                continue
            if want == 'silent':
                if notifs:
                    res.violation(f'C10/daemon:answers-notification:{fault}:{st}', f'a NOTIFICATION from the peer was answered with {notifs}', wit, cls)
                else:
                    res.ok(cls, ('daemon', fault, st))
                continue
            if len(notifs) != 1:
                res.violation(f'C10/daemon:notification-count:{fault}:{st}', f'{len(notifs)} NOTIFICATIONs for one error: {notifs}', wit, cls)
            elif notifs[0] not in want:
                res.violation(f'C10/daemon:wrong-code:{fault}:{st}', f'{fault} in {st} answered {notifs[0]}, expected one of {sorted(want)}', wit, cls)
            else:
                res.ok(cls, ('daemon', fault, st))
                res.ok('daemon:catalogue')
    except daemon.Inconclusive as e:
        if d.proc is not None and d.proc.poll() is not None:
            res.violation('C10/daemon:process-exits', f'the daemon exited (rc {d.proc.poll()}): {str(e)[:200]}', {'log': d.tail(2000)}, 'daemon')
        else:
            daemon.skipped(res, str(e))
    finally:
        try:
            if peer is not None:
                peer.close()
        except Exception:  # noqa
            pass
        d.stop()
    return res


def run_shard(desc):
    if desc.get('daemon'):
        return run_daemon(desc)
    res = Result()
    cases = all_cases(desc['tier'], desc['seed'])
    mine = [c for i, c in enumerate(cases) if i % desc['nshards'] == desc['shard']]
    for case in mine:
        status, rec = scen.run_case(case)
        if status != 'ok':
            res.inconclusive.append(f'{case["fault"]}:{case["state"]}/{case["mode"]}: lab {status} {str(rec)[:300]}')
            continue
        judge(res, case, rec)
        res.sample({'fault': case['fault'], 'state': case['state'], 'mode': case['mode'], 'received': [[m[0], m[1]] for m in rec['sessions'][-1]['rx']][-4:] if rec['sessions'] else []}, limit=3)
    res.extra['exhaustive'] = True
    res.extra['cells'] = len(mine)
    return res


def _required():
    out = []
    for fault, (data, states, exp) in catalogue().items():
        for st in states:
            out.append(f'{fault}:{st}')
    return out


REQUIRED_CLASSES = {'quick': _required() + ['daemon:catalogue'], 'thorough': _required() + ['daemon:catalogue']}
