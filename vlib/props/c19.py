"""C19 - decoding does not depend on what was decoded before.

Oracle = FRESH-PROCESS REFERENCE.  The shard process imports ExaBGP, builds the sessions (production
constructors), builds the API encoders and generates its messages and sequences WITHOUT decoding anything:
it is the pristine template and it never decodes.  It forks (os.fork + os.pipe + os.waitpid, SIGKILL watchdog)

  * one 'fresh' child PER UNIQUE MESSAGE (session, type, body): forked from the pristine template, it decodes that
    single message under its session exactly as production does (Message.unpack -> .data -> API encoders)
    and returns the parts (outcome, routes, attributes, json v6+v4, text) - the reference;
  * one 'sequence' child per sequence: it decodes a long interleaved sequence drawn WITH HEAVY REPETITION from
    the shard's unique messages and returns one digest per message and per part.

digest_in_sequence(i) must equal digest_fresh(message i).  A forked child of a process holding ExaBGP costs
0.1-1 s on this kind of VM (copy-on-write faults, not parallel across processes) where a message in a sequence
costs 3 ms: hence few unique messages (12 per quick shard, 36 per thorough shard) and long histories over them.

The sequence child also keeps every result object and re-renders them (after each message: the previous
result, the result that owns the cached attribute set, the results sharing an attribute object with the new
one, the kept OPEN/other results; at the end: all of them): a change means that a later message altered an
object shared with an earlier result.  Class level state (Attribute ID/FLAG of every registered class,
capability class IDs, the registries, ASPath.Empty, _EOR_CACHE members, the per attribute caches,
AttributeCollection.cached while `previous` is unchanged) is snapshotted after every message; a change alone
is informational.

A disagreement is replayed / delta-debugged in new forked children (sub-sequences ending with the message) so
that the witness is short: usually [the message that stored the cached attribute set, the message].
"""

from __future__ import annotations

import gc
import hashlib
import json
import os
import random
import re
import select
import struct
import time
import traceback

from vlib import corpus, exa, gen_wire as gw
from vlib import refwire as rw
from vlib.mon import Result, jdefault

PROPERTY = 'C19'
LEVEL = 'exploration'
RULE = (
    'per shard 2-4 concurrent sessions from {asn4, 2-byte} x {add-path, none} x {extended next hop on/off} x {ibgp, ebgp} x '
    '{aigp on/off} (both widths always; same-width sessions differ in exactly one parameter) and a small universe of unique '
    'messages taken by whole groups of RELATED pool items, each materialised on every session: attribute blocks whose AS_PATH '
    'bytes are valid under both ASN widths, 2-byte / 4-byte AGGREGATOR, AIGP, generated rich blocks of both encodings and their '
    'near-identical twins (one byte / one attribute apart), AS_PATH+AS4_PATH merges with repeated keys and AS4_AGGREGATOR, '
    'extended communities as one TLV / split over two attribute-16 TLVs / joined, a block followed by itself plus MP_REACH / '
    'MP_UNREACH (cache bypass), EORs of several families, route-refresh subtypes, OPENs with route-refresh capability 2 / 128 / '
    'both / repeated capabilities, NOTIFICATIONs, KEEPALIVE, qa corpus messages, generated and mutated UPDATEs; interleaved '
    'sequences of 50-500 messages drawn with heavy repetition (same item on another session half of the time, ASN width '
    'flipped half of the time), every shard run with Attribute.caching on (production) and off; thorough adds PYTHONHASHSEED=1 '
    'on half of the shards. distinct = distinct (message type, pool item kind, earlier session, session, cache state, caching)'
)
ASSUMPTIONS = [
    'a process forked from the template (ExaBGP imported, configuration parsed, sessions negotiated, encoders built, no message decoded since) stands for "a fresh process"',
    'envelope fields time / counter / pid / ppid / host of the JSON events and object addresses in messages legitimately differ and are stripped',
    'the cache state (hit / miss / bypass) and the message that stored the cached attribute set are learned by a transparent wrapper around AttributeCollection.unpack, in the sequence children only; replays of a disagreement run with that wrapper only',
    'the fresh reference of a unique message is forked once per shard and reused for every occurrence of that message (a fresh decode is a function of the message: re-checked by a second fork on a sample)',
    'the reference is forked under one Attribute.caching setting per shard (on: even shards, off: odd shards); it is assumed equal under the other setting (sampled), and any disagreement is re-judged against a reference forked under the exact setting before it is reported',
    'child watchdog expiry (SIGKILL) only ever gives inconclusive',
]
MANIFEST = {
    'level': 'exploration',
    'technique': 'runtime monitoring with a fresh-process reference: every message of long interleaved multi-session sequences is compared with the decode of the same bytes alone in a child forked from a pristine template (routes / attributes / JSON v6+v4 / text); earlier results re-rendered for shared-object immutability; class-level state snapshots; two sessions of different kinds established at the same time with one real exabgp process and fed an interleaved history, against each session alone with a fresh process: what the real helper process is told must not differ',
    'text': 'Sequences with heavy repetition designed to hit the process-wide caches are decoded in one process; each unique message is '
    'also decoded alone in a fresh forked process; any difference in outcome, routes, attributes or API output is a violation, '
    'replayed in new children to a short witness. Every kept result is re-rendered later to detect in-place alteration of '
    'shared objects. Held = no disagreement on the generated sequences, with every (storing width -> width) x {hit, miss} '
    'class, duplicate extended communities, EOR and the MP bypass exercised.',
    'note': 'only the receive decode path and the API encoders are observed (not the RIB); the template has already decoded the OPENs used to negotiate the sessions; forks are expensive on the target VM, so the number of unique messages per shard is small',
}
SHARD_TIMEOUT = {'quick': 400, 'thorough': 3000}

PARTS = ('outcome', 'routes', 'attributes', 'json', 'text')
TNAME = {1: 'open', 2: 'update', 3: 'notification', 4: 'keepalive', 5: 'refresh', 6: 'operational'}
WIDTH_PAIRS = ['asn4->asn4', 'asn4->as2', 'as2->asn4', 'as2->as2']
# a cache HIT across sessions of different AS width only exists while the cache ignores the session kind (the defect
# repaired upstream); what the workload must always produce is the OPPORTUNITY: the same octets arriving next on a
# session of the other width (then a hit or a miss), and hits between sessions of the same width
REQUIRED_CLASSES = {'quick': [f'{p}:miss' for p in WIDTH_PAIRS] + ['asn4->asn4:hit', 'as2->as2:hit', 'extcomm-duplicate', 'eor', 'mp-bypass', 'daemon:two-sessions']}
REQUIRED_CLASSES['thorough'] = REQUIRED_CLASSES['quick']


# ------------------------------------------------------------------ sessions


def session_kinds():
    out = []
    for asn4 in (True, False):
        for ap in (0, 3):
            for nh in (True, False):
                for ibgp in (False, True):
                    for aigp in (False, True):
                        name = f'{"asn4" if asn4 else "as2"}/{"ap" if ap else "noap"}/{"enh" if nh else "noenh"}/{"ibgp" if ibgp else "ebgp"}/{"aigp" if aigp else "noaigp"}'
                        out.append({'asn4': asn4, 'addpath': ap, 'nexthop': nh, 'ibgp': ibgp, 'aigp': aigp, 'name': name})
    return out


KINDS = {k['name']: k for k in session_kinds()}
DIMS = ('width', 'addpath', 'nexthop', 'peering', 'aigp')


def build_neighbor(sk):
    """the configured neighbor (real configuration parser); no OPEN is exchanged yet"""
    from exabgp.util.enumeration import TriState

    nb = corpus.all_families_neighbor(las=65000, pas=65000 if sk['ibgp'] else 65001, asn4=True, addpath=sk['addpath'], adj_rib_in=True)
    if not sk['nexthop']:
        nb.capability.nexthop = TriState.FALSE
    nb.capability.aigp = TriState.TRUE if sk['aigp'] else TriState.FALSE  # the session option AIGP.unpack_attribute reads
    return nb


def negotiate(nb, sk):
    """same construction as c02 / c03: our OPEN, mirrored peer OPEN, Negotiated. Run in the forked children only: the
    negotiation of the OTHER sessions is part of the history a decode must not depend on"""
    return corpus.mirror_session(nb, peer_asn4=sk['asn4'])


def build_session(sk):
    nb = build_neighbor(sk)
    return nb, negotiate(nb, sk)


def pair_label(prev: str, cur: str) -> str:
    """'asn4->as2' when the ASN width differs; with equal widths the other differing parameters are named ('aigp->noaigp')"""
    a, b = prev.split('/'), cur.split('/')
    if a[0] != b[0] or a == b:
        return f'{a[0]}->{b[0]}'
    da = [x for x, y in zip(a[1:], b[1:]) if x != y]
    db = [y for x, y in zip(a[1:], b[1:]) if x != y]
    return f'{"+".join(da)}->{"+".join(db)}'


def width(name: str) -> str:
    return name.split('/')[0]


# ------------------------------------------------------------------ workload (pure: refwire / gen_wire only, nothing is decoded)

V4 = ['10.0.0.0/24', '10.1.0.0/16', '192.0.2.0/24', '203.0.113.77/32']
V6 = ['2001:db8::/32', '2001:db8:1::/48', '2001:db8::1/128']
ASNS = [1, 2, 3, 100, 513, 64512, 65000, 65001]


def dual_aspath(r: random.Random) -> bytes:
    """AS_PATH bytes valid under BOTH widths with different readings.

    [t n] n x 2 bytes [t2 n-1] (n-1) x 2 bytes: 2-byte reading = two segments of n and n-1 ASNs, 4-byte reading = one
    segment of n ASNs (4n payload bytes)."""
    n = r.choice([2, 2, 3, 4])
    t = r.choice([2, 2, 1])
    t2 = r.choice([2, 1])
    a = b''.join(struct.pack('!H', r.choice(ASNS)) for _ in range(n))
    b = b''.join(struct.pack('!H', r.choice(ASNS)) for _ in range(n - 1))
    return bytes([t, n]) + a + bytes([t2, n - 1]) + b


def base_block(aspath: bytes, extra: bytes = b'', nh: str = '192.0.2.1') -> bytes:
    return rw.enc_attr(0x40, 1, b'\0') + rw.enc_attr(0x40, 2, aspath) + rw.enc_attr(0x40, 3, rw.ipbytes(nh)) + extra


def ec(asn: int, val: int) -> bytes:
    return bytes([0x00, 0x02]) + struct.pack('!HL', asn, val)


def make_groups(r: random.Random, qa: list, sk0: dict) -> list[list[dict]]:
    """-> groups of RELATED pool items (a shard takes whole groups: the related messages meet in one sequence).

    An UPDATE item holds an attribute block and how the NLRI / MP part is produced per session."""
    groups: list[list[dict]] = []

    def upd(tag, attrs, nlri='v4', mp=None):
        return {'tag': tag, 'type': 2, 'attrs': attrs, 'nlri': nlri, 'mp': mp, 'salt': r.getrandbits(30)}

    def raw(tag, mtype, body):
        return {'tag': tag, 'type': mtype, 'raw': body}

    med = rw.enc_attr(0x80, 4, struct.pack('!L', 100))
    comm = rw.enc_attr(0xC0, 8, struct.pack('!HHHH', 65000, 1, 65000, 666))
    duals = [dual_aspath(r) for _ in range(3)]
    # (1) AS_PATH valid under both widths (always taken: the design's suspect)
    # (the second item shares its attribute bytes with the first and also withdraws a route: same cached attribute set, another rendering)
    groups.append([upd('dual', base_block(duals[0])), upd('dual-withdraw', base_block(duals[0]), nlri='v4+withdraw'), upd('dual', base_block(duals[1], med + comm)), upd('dual', base_block(duals[2], comm))])
    # (2) AGGREGATOR of each width (valid on one kind of session only), empty AS_PATH
    groups.append(
        [
            upd('aggregator2', base_block(duals[0], rw.enc_attr(0xC0, 7, struct.pack('!H', 65001) + rw.ipbytes('192.0.2.200')))),
            upd('aggregator2', base_block(duals[1], rw.enc_attr(0xC0, 7, struct.pack('!H', 65001) + rw.ipbytes('192.0.2.200')) + med)),  # same TLV, other block
            upd('aggregator4', base_block(duals[0], rw.enc_attr(0xC0, 7, struct.pack('!L', 65001) + rw.ipbytes('192.0.2.200')))),
            upd('empty-aspath', base_block(b'', rw.enc_attr(0x40, 5, struct.pack('!L', 100)))),
        ]
    )
    # (2b) AIGP: accepted only on sessions configured for it
    aigp = rw.enc_attr(0x80, 26, bytes([1]) + struct.pack('!HQ', 11, 1000))
    groups.append([upd('aigp', base_block(rw.v_aspath([(2, [65001])], True), aigp)), upd('aigp', base_block(duals[1], aigp + med)), upd('aigp', base_block(b'', aigp))])
    # (3)(4) generated rich blocks of both encodings and their near-identical twins (one byte / one attribute apart)
    rich = []
    for asn4 in (True, False):
        a = gw.rand_attrs(r, asn4, ibgp=r.random() < 0.5, rich=0.7)
        block = b''.join(gw.enc_attrs(a, asn4, r, shuffle=r.random() < 0.3))
        rich.append(block)
        near = bytearray(block)
        near[-1] ^= 0x01
        tag = 'rich-asn4' if asn4 else 'rich-as2'
        groups.append([upd(tag, block), upd('near-byte', bytes(near)), upd('near-extra', block + rw.enc_attr(0xC0, 32, struct.pack('!LLL', 65000, 1, 2)))])
    # (5) AS_PATH + AS4_PATH merges: repeated keys, the same AS_PATH with another AS4_PATH, AS4_AGGREGATOR
    as2 = rw.v_aspath([(2, [65001, rw.AS_TRANS, rw.AS_TRANS])], False)
    g = []
    for new in ([(2, [70000, 80000])], [(2, [70000, 4200000000])], [(2, [70000]), (1, [80000, 90000])]):
        g.append(upd('as4-merge', rw.enc_attr(0x40, 1, b'\0') + rw.enc_attr(0x40, 2, as2) + rw.enc_attr(0x40, 3, rw.ipbytes('192.0.2.1')) + rw.enc_attr(0xC0, 17, rw.v_aspath(new, True))))
    agg = rw.enc_attr(0xC0, 7, struct.pack('!H', rw.AS_TRANS) + rw.ipbytes('192.0.2.200')) + rw.enc_attr(0xC0, 18, struct.pack('!L', 70000) + rw.ipbytes('192.0.2.200'))
    g.insert(2, upd('as4-aggregator', base_block(as2, agg)))
    groups.append(g)
    # (6) extended communities: single TLV, the same followed by a second attribute 16, and the joined form
    c1, c2, c3 = ec(65000, 1), ec(65000, 2), ec(64512, 77)
    single = base_block(duals[1], rw.enc_attr(0xC0, 16, c1))
    groups.append(
        [
            upd('extcomm-single', single),
            upd('extcomm-duplicate', single + rw.enc_attr(0xC0, 16, c2)),
            upd('extcomm-joined', base_block(duals[1], rw.enc_attr(0xC0, 16, c1 + c2))),
            upd('extcomm-duplicate', single + rw.enc_attr(0xC0, 16, c2 + c3) + med),
        ]
    )
    # (7) a block, then the same block plus MP attributes (the cache is bypassed and reset)
    for src in (base_block(duals[0]), rich[0]):
        groups.append([upd('mp-base', src), upd('mp-reach6', src, nlri='v4', mp='reach6'), upd('mp-unreach6', src, nlri='none', mp='unreach6'), upd('mp-reach4-enh', src, nlri='none', mp='reach4enh')])
    groups.append([upd('mp-only-reach6', rw.enc_attr(0x40, 1, b'\0') + rw.enc_attr(0x40, 2, duals[2]), nlri='none', mp='reach6'), upd('mp-vpn4', base_block(duals[2]), nlri='none', mp='reachvpn4'), upd('mp-base', base_block(duals[2]))])
    # (8) End-of-RIB of several families
    eors = [raw('eor', 2, rw.enc_update_body(b'', rw.enc_attr(0x80, 15, struct.pack('!HB', afi, safi)), b'')) for afi, safi in ((2, 1), (1, 128), (1, 4), (25, 70), (16388, 71), (1, 133))]
    r.shuffle(eors)
    groups.append([raw('eor', 2, b'\0\0\0\0')] + eors)
    # (9) route refresh with standard / enhanced subtypes (and one invalid)
    refresh = [raw('refresh', 5, struct.pack('!HBB', afi, sub, safi)) for afi, safi, sub in ((1, 1, 0), (1, 1, 1), (1, 1, 2), (2, 1, 0), (2, 1, 1), (1, 128, 2), (1, 1, 3))]
    r.shuffle(refresh)
    groups.append(refresh)
    # (10) OPEN: cisco (128) vs standard (2) route refresh, both, repeated capabilities
    basecaps = [rw.cap_mp(1, 1), rw.cap_mp(2, 1), rw.cap_asn4(65001)]
    opens = []
    for caps in (
        basecaps + [(2, b'')],
        basecaps + [(128, b'')],
        basecaps + [(2, b''), (128, b'')],
        [rw.cap_mp(1, 1), rw.cap_mp(1, 1), (2, b''), (2, b''), rw.cap_asn4(65001), rw.cap_asn4(65001), rw.cap_hostname(b'h', b'd')],
        basecaps + [(128, b''), (2, b''), (70, b'')],
        [rw.cap_mp(1, 1), rw.cap_addpath([(1, 1, 3)]), rw.cap_addpath([(2, 1, 1)]), rw.cap_gr(8, 120, [(1, 1, 0x80)]), (200, b'\1\2')],
    ):
        opens.append(raw('open', 1, rw.enc_open_body(65001, 180, '10.0.0.2', caps, one_param=r.random() < 0.3)))
    opens.append(raw('open', 1, rw.enc_open_body(rw.AS_TRANS, 90, '10.0.0.3', [rw.cap_mp(1, 1), rw.cap_asn4(70000), (128, b'')])))
    groups.append(opens[:2] + r.sample(opens[2:], len(opens) - 2))
    # (11) NOTIFICATION, KEEPALIVE
    notes = [raw('notification', 3, body) for body in (bytes([6, 2]), bytes([6, 2]) + b'\x04bye!', bytes([2, 7]) + bytes([65, 4, 0, 0, 253, 233]), bytes([3, 1]), b'\x06')]
    r.shuffle(notes)
    groups.append([raw('keepalive', 4, b'')] + notes)
    # (12) qa corpus seeds (every family ExaBGP knows)
    if qa:
        groups.append([raw('qa', m['type'], m['body']) for m in r.sample(qa, min(4, len(qa)))])
    # (13) generated UPDATEs (valid for the first session of the shard) and a mutated one
    fams = ((1, 1), (2, 1), (1, 4), (2, 4), (1, 128), (2, 128))
    s = {'asn4': sk0['asn4'], 'addpath': set(fams) if sk0['addpath'] else set(), 'ibgp': sk0['ibgp']}
    gen = [gw.gen_update(r, s, families=fams, rich=0.5)[0] for _ in range(3)]
    groups.append([raw('generated', 2, gen[0]), raw('mutated', 2, gw.mutate(r, gen[1], r.choice([1, 2, 3]))[:4000]), raw('generated', 2, gen[2])])
    # (14) LAST group, always taken (one item per shard): withdrawals of MP families which travel with other attributes, the
    # way ExaBGP itself encodes the withdrawal of a labelled / VPN route; decoding takes the MP attribute out of the set
    src = base_block(duals[1], med)
    groups.append([upd('mp-unreach6-attrs', src, nlri='none', mp='unreach6'), upd('mp-unreachvpn4-attrs', rich[0], nlri='none', mp='unreachvpn4'), upd('mp-unreach6-attrs', rich[1], nlri='none', mp='unreach6')])
    return groups


def materialise(item: dict, sk: dict) -> bytes:
    if 'raw' in item:
        return item['raw']
    ap = bool(sk['addpath'])
    r = random.Random(item['salt'])  # the NLRI part is fixed per item: whole messages repeat, not only attribute blocks
    pid = r.choice([1, 7]) if ap else None
    nlri = withdrawn = b''
    if item['nlri'].startswith('v4'):
        nlri = b''.join(rw.enc_nlri(rw.mk_nlri(1, 1, p, pid), ap) for p in r.sample(V4, r.choice([1, 1, 2])))
    if item['nlri'].endswith('withdraw'):
        withdrawn = rw.enc_nlri(rw.mk_nlri(1, 1, r.choice(V4), pid), ap)
    attrs = item['attrs']
    mp = item['mp']
    if mp == 'reach6':
        attrs = attrs + rw.enc_mp_reach(2, 1, ['2001:db8::ff'], [rw.mk_nlri(2, 1, r.choice(V6), pid)], ap)
    elif mp == 'unreach6':
        attrs = rw.enc_mp_unreach(2, 1, [rw.mk_nlri(2, 1, r.choice(V6), pid)], ap) + attrs
    elif mp == 'reach4enh':
        attrs = attrs + rw.enc_mp_reach(1, 1, ['2001:db8::ff'], [rw.mk_nlri(1, 1, r.choice(V4), pid)], ap)
    elif mp == 'unreachvpn4':
        n = rw.mk_nlri(1, 128, r.choice(V4), pid, (100,), struct.pack('!HHL', 0, 65000, 1).hex())
        attrs = rw.enc_mp_unreach(1, 128, [n], ap) + attrs
    elif mp == 'reachvpn4':
        n = rw.mk_nlri(1, 128, r.choice(V4), pid, (100,), struct.pack('!HHL', 0, 65000, 1).hex())
        attrs = attrs + rw.enc_mp_reach(1, 128, ['192.0.2.1'], [n], ap)
    return rw.enc_update_body(withdrawn, attrs, nlri)


def make_universe(r: random.Random, qa: list, shard: int, nsessions: int, nbodies: int, per_group: int) -> dict:
    """the shard's sessions and its small set of UNIQUE messages (one fresh child each); sequences draw from it with repetition.

    A fresh child costs a fork (expensive), a message in a sequence costs microseconds: few unique messages, long histories."""
    names = sorted(KINDS)
    flip = {'ap': 'noap', 'noap': 'ap', 'enh': 'noenh', 'noenh': 'enh', 'ibgp': 'ebgp', 'ebgp': 'ibgp', 'aigp': 'noaigp', 'noaigp': 'aigp'}

    def twin(name: str, dim: int) -> str:
        parts = name.split('/')
        parts[dim] = flip[parts[dim]]
        return '/'.join(parts)

    first = r.choice(names)
    other = r.choice([n for n in names if width(n) != width(first)])
    chosen = [first, other]
    flipped = None
    if nsessions >= 3:
        # a same-width twin of the first session that differs in exactly ONE other negotiated parameter (rotating over the shards)
        flipped = 1 + (shard // 2) % 4
        if flipped == 3 and first.endswith('/aigp'):
            # the peering only matters to AIGP when the option is off (kept on IBGP, dropped on EBGP)
            first = chosen[0] = twin(first, 4)
        chosen.insert(1, twin(first, flipped))
    if nsessions >= 4:
        chosen.append(twin(other, 1 + (shard // 2 + 1 + shard % 3) % 4))
    groups = make_groups(r, qa, KINDS[chosen[0]])
    # group 0 (dual AS_PATH) always; the others in rotation over the shards so that every group is taken by several shards
    order = list(range(1, len(groups) - 1))
    random.Random(977).shuffle(order)
    if flipped in (3, 4):  # AIGP is kept on IBGP and dropped on EBGP sessions: the peering twin matters to it as well
        order.remove(2)
        order.insert((shard * 2) % (len(order) + 1), 2)  # the AIGP group meets the sessions that differ in the AIGP option
    items = list(groups[0][:per_group]) + [groups[-1][shard % len(groups[-1])]]
    gid = {id(x): 0 for x in items[:-1]}
    gid[id(items[-1])] = len(groups) - 1
    g = shard * 2
    while len(items) < nbodies:
        grp = groups[order[g % len(order)]]
        for x in grp[: min(per_group, nbodies - len(items))]:
            items.append(x)
            gid[id(x)] = order[g % len(order)]
        g += 1
    uniques = []
    for item in items:
        for kind in chosen:
            uniques.append({'k': kind, 't': item['type'], 'b': materialise(item, KINDS[kind]).hex(), 'tag': item['tag'], 'item': id(item), 'group': gid[id(item)]})
    return {'sessions': chosen, 'uniques': uniques, 'nitems': len(items)}


def make_sequence(r: random.Random, uni: dict, length: int) -> list:
    by_item: dict = {}
    for u in uni['uniques']:
        by_item.setdefault(u['item'], {})[u['k']] = u
    items = list(by_item)
    group_of = {u['item']: u.get('group') for u in uni['uniques']}
    chosen = uni['sessions']
    steps = []
    prev_item = prev_kind = None
    for _ in range(length):
        # the session: flip the ASN width half of the time, any session otherwise
        if prev_kind is not None and r.random() < 0.5:
            kind = r.choice([n for n in chosen if width(n) != width(prev_kind)])
        else:
            kind = r.choice(chosen)
        # the message: the same pool item as the previous one half of the time (identical attribute bytes on another session)
        item = prev_item if prev_item is not None and r.random() < 0.5 else r.choice(items)
        if prev_item is not None and r.random() < 0.12:
            item, kind = prev_item, prev_kind  # the very same message again on the very same session, back to back
        elif prev_item is not None and r.random() < 0.15:
            # a RELATED message (same group: same attribute bytes with other routes, one attribute more, ...) on the same session
            sibs = [i for i in items if i != prev_item and group_of[i] == group_of[prev_item]]
            if sibs:
                item, kind = r.choice(sibs), prev_kind
        u = by_item[item][kind]
        steps.append({'k': u['k'], 't': u['t'], 'b': u['b'], 'tag': u['tag']})
        prev_item, prev_kind = item, kind
    return steps


# ------------------------------------------------------------------ observation (runs in forked children only)

_ADDR = re.compile(r' at 0x[0-9a-fA-F]{6,}')
_ENV = [
    re.compile(r'"time": [-0-9.e+]+, '),
    re.compile(r'"host" : "[^"]*", '),
    re.compile(r'"pid" : \d+, '),
    re.compile(r'"ppid" : \d+, '),
    re.compile(r'"counter": \d+, '),
]


def strip_envelope(text) -> str:
    if not isinstance(text, str):
        return repr(text)
    for rx in _ENV:
        text = rx.sub('', text, count=1)
    return text


def safe(fn, *a, **k):
    try:
        v = fn(*a, **k)
        if isinstance(v, (bytes, bytearray, memoryview)):
            return bytes(v).hex()
        if isinstance(v, (int, float, bool, type(None))):
            return v
        return _ADDR.sub('', v if isinstance(v, str) else str(v))
    except BaseException as e:  # noqa - the rendering failing is an observation, not a harness failure
        return f'!raise {type(e).__name__}: {_ADDR.sub("", str(e))[:200]}'


def hexof(v) -> str | None:
    if v is None:
        return None
    try:
        return bytes(v).hex()
    except Exception:  # noqa
        return repr(v)


class Encoders:
    def __init__(self) -> None:
        from exabgp.reactor.api.response import Response
        from exabgp.version import json as json_version
        from exabgp.version import json_v4, text_v4

        # what reactor/api/processes.py instantiates: v6 = JSON only, v4 = JSON or text
        self.json6 = Response.JSON(json_version)
        self.json4 = Response.V4.JSON(json_v4)
        self.text4 = Response.V4.Text(text_v4)


ENC: Encoders | None = None  # built in the template (constructing an encoder decodes nothing); children inherit it


def decode(mtype: int, body: bytes, neg):
    """as production: Message.unpack(type, body, negotiated) and, for an UPDATE, its .data -> (msg, outcome)"""
    from exabgp.bgp.message import Message, Notify

    try:
        msg = Message.unpack(mtype, memoryview(body), neg)  # a memoryview, as Connection.reader hands the body over
        if mtype == 2 and not getattr(msg, 'IS_EOR', False):
            msg.data  # noqa: B018 - the lazy parse
        return msg, ['decoded', type(msg).__name__]
    except Notify as n:
        return None, ['raise', 'Notify', int(n.code), int(n.subcode), _ADDR.sub('', str(n))[:300]]
    except BaseException as e:  # noqa
        return None, ['raise', type(e).__name__, _ADDR.sub('', str(e))[:300]]


def render(msg, mtype: int, nb, neg, E: Encoders) -> dict:
    """everything an observer of the decoded message can see, envelope stripped"""
    p: dict = {'routes': [], 'attributes': [], 'json': [], 'text': []}
    if mtype == 2:
        eor = bool(getattr(msg, 'IS_EOR', False))
        coll = msg if eor else msg.data
        # the API encoders first, exactly as production calls them on a freshly decoded message: the harness's own look at the
        # attribute set (str(), json() below) fills the strings the collection memoises on itself and must not come before
        p['json'] = [strip_envelope(safe(E.json6.update, nb, 'receive', coll, b'', b'', neg)), strip_envelope(safe(E.json4.update, nb, 'receive', coll, b'', b'', neg))]
        p['text'] = [safe(E.text4.update, nb, 'receive', coll, b'', b'', neg), safe(str, msg)]
        if eor:
            for n in coll.nlris:
                p['routes'].append(['eor', safe(lambda n=n: f'{n.afi} {n.safi}'), safe(str, n)])
        else:
            for routed in coll.announces:
                n = routed.nlri
                p['routes'].append(['+', safe(lambda n=n: f'{n.afi} {n.safi}'), safe(str, n), safe(str, routed.nexthop)])
            for n in coll.withdraws:
                p['routes'].append(['-', safe(lambda n=n: f'{n.afi} {n.safi}'), safe(str, n)])
        a = coll.attributes
        p['attributes'] = [safe(str, a), safe(a.json)]
        try:
            for code in sorted(a):
                attr = a[code]
                p['attributes'].append([int(code), type(attr).__name__, safe(lambda attr=attr: int(attr.FLAG)), safe(str, attr)])
        except BaseException as e:  # noqa
            p['attributes'].append(f'!raise {type(e).__name__}')
        return p
    p['text'].append(safe(str, msg))
    if mtype == 1:
        try:
            for code, cap in msg.capabilities.items():
                p['attributes'].append([int(code), type(cap).__name__, safe(lambda cap=cap: int(cap.ID)), safe(str, cap), safe(cap.json)])
        except BaseException as e:  # noqa
            p['attributes'].append(f'!raise {type(e).__name__}')
        p['attributes'].append([safe(lambda: int(msg.asn)), safe(lambda: int(msg.hold_time)), safe(lambda: str(msg.router_id))])
        call = ('open', (nb, 'receive', msg, b'', b'', neg))
    elif mtype == 3:
        p['attributes'].append([safe(lambda: int(msg.code)), safe(lambda: int(msg.subcode)), safe(lambda: bytes(msg.data).hex())])
        call = ('notification', (nb, 'receive', msg, b'', b'', neg))
    elif mtype == 4:
        call = ('keepalive', (nb, 'receive', b'', b'', neg))
    elif mtype == 5:
        p['attributes'].append([safe(lambda: str(msg.afi)), safe(lambda: str(msg.safi)), safe(lambda: int(msg.reserved))])
        call = ('refresh', (nb, 'receive', msg, b'', b'', neg))
    else:
        return p
    name, args = call
    p['json'] = [strip_envelope(safe(getattr(E.json6, name), *args)), strip_envelope(safe(getattr(E.json4, name), *args))]
    p['text'].append(safe(getattr(E.text4, name), *args))
    return p


def deep(msg, mtype: int) -> dict:
    """content of a kept result that bypasses the strings the collection caches on itself"""
    out: dict = {}
    if mtype == 2:
        eor = bool(getattr(msg, 'IS_EOR', False))
        coll = msg if eor else msg.data
        a = coll.attributes
        for code in sorted(a):
            attr = a[code]
            out[f'attribute-{int(code)}'] = [type(attr).__name__, hexof(getattr(attr, '_packed', None)), safe(str, attr), safe(lambda attr=attr: int(attr.ID)), safe(lambda attr=attr: int(attr.FLAG))]
        out['attribute-set'] = [safe(lambda: ''.join(a._generate_text())), safe(lambda: ', '.join(a._generate_json()))]
        out['attribute-set-str'] = [safe(str, a), safe(a.json)]
        if eor:
            out['nlri'] = [safe(str, n) for n in coll.nlris]
        else:
            out['nlri'] = [[safe(str, x.nlri), safe(x.nlri.index), safe(str, x.nexthop)] for x in coll.announces] + [[safe(str, n), safe(n.index)] for n in coll.withdraws]
    elif mtype == 1:
        out['open'] = safe(str, msg)
        try:
            for code, cap in msg.capabilities.items():
                out[f'capability-{int(code)}'] = [type(cap).__name__, safe(str, cap), safe(cap.json), safe(lambda cap=cap: int(cap.ID))]
        except BaseException as e:  # noqa
            out['capabilities'] = f'!raise {type(e).__name__}'
    else:
        out['message'] = [safe(str, msg), hexof(getattr(msg, '_packed', None))]
    return out


def class_state() -> dict:
    """class level / singleton state that no decode should alter"""
    from exabgp.bgp.message.open.capability.capability import Capability
    from exabgp.bgp.message.update.attribute import Attribute
    from exabgp.bgp.message.update.attribute.aspath import AS4Path, ASPath
    from exabgp.bgp.message.update.collection import UpdateCollection
    from exabgp.bgp.message.update.nlri import NLRI

    st: dict = {}
    seen = set()
    for (aid, flg), kls in Attribute.registered_attributes.items():
        if kls in seen:
            continue
        seen.add(kls)
        i, f = kls.__dict__.get('ID', getattr(kls, 'ID', None)), getattr(kls, 'FLAG', None)
        st[f'attribute-class-id:{kls.__name__}'] = i if isinstance(i, int) else 'property'
        st[f'attribute-class-flag:{kls.__name__}'] = f if isinstance(f, int) else 'property'
    st['registry:attributes'] = sorted(f'{a}/{f}:{k.__name__}' for (a, f), k in Attribute.registered_attributes.items())
    st['registry:attributes-known'] = [len(Attribute.attributes_known), len(Attribute.attributes_well_know), len(Attribute.attributes_optional)]
    for code, kls in Capability.registered_capability.items():
        st[f'capability-class-id:{kls.__name__}'] = int(getattr(kls, 'ID', -1))
    st['registry:capabilities'] = sorted(f'{int(c)}:{k.__name__}' for c, k in Capability.registered_capability.items())
    try:
        st['registry:nlri'] = sorted(f'{k}:{v.__name__}' for k, v in NLRI.registered_nlri.items())
    except Exception:  # noqa
        pass
    for name, obj in (('ASPath.Empty', ASPath.Empty), ('AS4Path.Empty', AS4Path.Empty)):
        st[f'singleton:{name}'] = [hexof(getattr(obj, '_packed', None)), safe(str, obj), safe(obj.json), safe(lambda obj=obj: bool(obj._asn4)) if hasattr(obj, '_asn4') else None]
    for fam, inst in UpdateCollection._EOR_CACHE.items():
        st[f'eor-cache:{fam[0]} {fam[1]}'] = [len(inst.announces), len(inst.withdraws), safe(str, inst.attributes), len(inst.attributes)]
    for aid, cache in Attribute.cache.items():
        for n, (key, val) in enumerate(cache.items()):
            if n >= 48:
                break
            st[f'attribute-cache:{aid}:{hexof(key)[:64]}'] = [type(val).__name__, hexof(getattr(val, '_packed', None)), safe(str, val)]
    return st


def cached_state():
    from exabgp.bgp.message.update.attribute import AttributeCollection

    c = AttributeCollection.cached
    if c is None:
        return None, None
    content = []
    for code in sorted(c):
        attr = c[code]
        content.append([int(code), type(attr).__name__, hexof(getattr(attr, '_packed', None)), safe(str, attr)])
    return hexof(AttributeCollection.previous), content


def pdigest(v) -> str:
    return hashlib.sha1(json.dumps(v, sort_keys=True, default=jdefault).encode()).hexdigest()[:16]


def child_sequence(steps: list, sessions: dict, caching: bool, monitor: str, full: str) -> dict:
    """runs in a forked child.

    monitor: 'none' (fresh reference: nothing but production code), 'spy' (transparent wrapper that learns the cache state),
    'full' (spy + kept results re-rendered + class state snapshots). full: 'all' | 'last' | 'none' -> records carrying the parts"""
    from exabgp.bgp.message.update.attribute import Attribute, AttributeCollection

    gc.disable()  # a collection in a child would touch (copy) every page of the template
    Attribute.caching = caching  # application/server.py: Attribute.caching = env.cache.attributes (default true)
    E = ENC or Encoders()
    calls: list = []
    owner: dict = {}
    hold: list = []
    cur = [0]
    if monitor != 'none':
        original = AttributeCollection.unpack.__func__

        def spy(cls, data, negotiated):
            before = cls.cached
            result = original(cls, data, negotiated)
            if before is not None and result is before:
                state = 'hit'
            elif cls.cached is result:
                state = 'miss'
                owner[id(result)] = cur[0]  # stored by this message, even if the rest of its decoding fails
                hold.append(result)  # keeps id() stable
            else:
                state = 'bypass'
            calls.append((state, before))
            return result

        AttributeCollection.unpack = classmethod(spy)
    monitor_full = monitor == 'full'
    base = class_state() if monitor_full else {}
    prev_cached = cached_state() if monitor_full else (None, None)
    recs = []
    kept: list = []
    deeps: list = []
    attr_owner: dict = {}
    others: list = []
    mutated: list = []
    flagged: set = set()

    def recheck(i: int, by) -> None:
        if i < 0 or i >= len(kept) or kept[i] is None:
            return
        msg, mtype = kept[i][0], kept[i][1]
        now = deep(msg, mtype)
        if now != deeps[i]:
            if i not in flagged:  # the first alteration of a result is reported, with the message that caused it
                flagged.add(i)
                names = [k for k in sorted(set(now) | set(deeps[i])) if now.get(k) != deeps[i].get(k)]
                mutated.append({'i': i, 'by': by, 'names': names, 'was': {k: deeps[i].get(k) for k in names[:3]}, 'now': {k: now.get(k) for k in names[:3]}})
            deeps[i] = now

    negotiated: dict = {}
    for j, step in enumerate(steps):
        nb = sessions[step['k']][0]
        if step['k'] not in negotiated:
            # the session comes up when its first message arrives, in the middle of the others' traffic
            negotiated[step['k']] = negotiate(nb, KINDS[step['k']])
            if bool(negotiated[step['k']].asn4) != KINDS[step['k']]['asn4']:
                return {'harness_error': f'session {step["k"]}: negotiated asn4={negotiated[step["k"]].asn4}'}
        neg = negotiated[step['k']]
        del calls[:]
        cur[0] = j
        msg, outcome = decode(step['t'], bytes.fromhex(step['b']), neg)
        parts = {'outcome': outcome, 'routes': [], 'attributes': [], 'json': [], 'text': []}
        if msg is not None:
            parts.update(render(msg, step['t'], nb, neg, E))
        rec: dict = {'d': {k: pdigest(parts[k]) for k in PARTS}, 'cache': calls[0][0] if calls else 'none', 'out': outcome[:4]}
        if calls and calls[0][0] == 'hit':
            rec['owner'] = owner.get(id(calls[0][1]), -1)  # the message whose decode stored the attribute set returned now
        if full == 'all' or (full == 'last' and j == len(steps) - 1):
            rec['parts'] = parts
        if monitor_full:
            kept.append((msg, step['t'], nb, neg, parts) if msg is not None else None)
            deeps.append(deep(msg, step['t']) if msg is not None else None)
            # who else holds the attribute set that was cached before this message: re-render it and the previous result
            cands = {j - 1}
            if calls and calls[0][1] is not None:
                cands.add(owner.get(id(calls[0][1]), -1))
            if msg is not None and step['t'] == 2 and not getattr(msg, 'IS_EOR', False):
                # ... and the earlier results which hold the very same attribute OBJECTS (a per attribute cache)
                for attr in msg.data.attributes.values():
                    cands.add(attr_owner.setdefault(id(attr), j))
            cands.update(others[-24:])
            if msg is not None and step['t'] != 2:
                others.append(j)
            for i in sorted(cands):
                if i != j:
                    recheck(i, j)
            st = class_state()
            changed = [k for k in st if k in base and st[k] != base[k]]
            cs = cached_state()
            if cs[0] is not None and cs[0] == prev_cached[0] and cs[1] != prev_cached[1]:
                changed.append('attribute-set-cache:content-changed-under-same-key')
            prev_cached = cs
            if changed:
                rec['state'] = [[k, base.get(k), st.get(k)] for k in changed[:6]]
            base = st
        recs.append(rec)
    if monitor_full:
        for i in range(len(kept)):
            recheck(i, None)
            if kept[i] is None:
                continue
            msg, mtype, nb, neg, parts = kept[i]
            again = render(msg, mtype, nb, neg, E)
            diff = [k for k in PARTS[1:] if again[k] != parts[k]]
            if diff and i not in flagged:
                mutated.append({'i': i, 'by': None, 'names': ['render-' + diff[0]], 'was': {diff[0]: parts[diff[0]]}, 'now': {diff[0]: again[diff[0]]}})
    return {'recs': recs, 'mutated': mutated}


# ------------------------------------------------------------------ forked children: os.fork + os.pipe + os.waitpid, SIGKILL on expiry


class Job:
    __slots__ = ('pid', 'fd', 'buf', 'deadline', 'idx')


class Forker:
    def __init__(self) -> None:
        self.forks = 0
        self.timeouts = 0

    def spawn(self, fn, args, timeout: float) -> Job:
        rfd, wfd = os.pipe()
        pid = os.fork()
        if pid == 0:
            try:
                os.close(rfd)
                try:
                    out = fn(*args)
                except BaseException:  # noqa
                    out = {'harness_error': traceback.format_exc()[-1500:]}
                data = json.dumps(out, default=jdefault).encode()
                view = memoryview(data)
                while view:
                    n = os.write(wfd, view[: 1 << 16])
                    view = view[n:]
                os.close(wfd)
            finally:
                os._exit(0)
        os.close(wfd)
        self.forks += 1
        j = Job()
        j.pid, j.fd, j.buf, j.deadline, j.idx = pid, rfd, [], time.monotonic() + timeout, 0
        return j

    def _finish(self, j: Job, killed: bool) -> dict:
        os.close(j.fd)
        try:
            _, status = os.waitpid(j.pid, 0)
        except ChildProcessError:
            status = -1
        if killed:
            self.timeouts += 1
            return {'failed': 'watchdog'}
        try:
            return json.loads(b''.join(j.buf))
        except ValueError:
            return {'failed': f'child ended with status {status} and {sum(map(len, j.buf))} bytes'}

    def run(self, tasks: list, window: int, timeout: float) -> list:
        """tasks = [(fn, args)] -> results in order; at most `window` children alive, each from THIS (pristine) process"""
        results: list = [None] * len(tasks)
        live: dict = {}
        nxt = 0
        while nxt < len(tasks) or live:
            while nxt < len(tasks) and len(live) < window:
                j = self.spawn(tasks[nxt][0], tasks[nxt][1], timeout)
                j.idx = nxt
                live[j.fd] = j
                nxt += 1
            now = time.monotonic()
            wait = max(0.0, min(min(j.deadline for j in live.values()) - now, 1.0))
            ready, _, _ = select.select(list(live), [], [], wait)
            for fd in ready:
                j = live[fd]
                chunk = os.read(fd, 1 << 16)
                if chunk:
                    j.buf.append(chunk)
                else:
                    del live[fd]
                    results[j.idx] = self._finish(j, False)
            now = time.monotonic()
            for fd, j in list(live.items()):
                if now > j.deadline:
                    try:
                        os.kill(j.pid, 9)
                    except ProcessLookupError:
                        pass
                    del live[fd]
                    results[j.idx] = self._finish(j, True)
        return results

    def one(self, fn, args, timeout: float) -> dict:
        return self.run([(fn, args)], 1, timeout)[0]


# ------------------------------------------------------------------ the shard


def plan(tier, seed):
    # A forked child of a process with ExaBGP imported costs ~0.2-0.3 s here (copy-on-write faults), and forks do not scale
    # across processes: the number of UNIQUE messages (one fresh child each) is kept small, the histories over them long.
    out = []
    if tier == 'quick':
        for i in range(16):
            out.append({'shard': i, 'sessions': 2 + i % 2, 'bodies': 6 if i % 2 == 0 else 4, 'per_group': 2, 'sequences': 1, 'length': 300, 'window': 1, 'shrink_forks': 24})
    else:
        for i in range(64):
            out.append({'shard': i, 'sessions': 2 + i % 3, 'bodies': 36 // (2 + i % 3), 'per_group': 3, 'sequences': 3, 'length': 500, 'window': 1, 'shrink_forks': 60, 'hashseed': i % 2})
    out += [{'shard': 900 + i, 'daemon': True, 'part': i, 'messages': 60 if tier == 'quick' else 400} for i in range(4 if tier == 'quick' else 8)]
    return out


def first_diff(a, b) -> dict:
    sa, sb = json.dumps(a, sort_keys=True, default=jdefault), json.dumps(b, sort_keys=True, default=jdefault)
    n = 0
    while n < min(len(sa), len(sb)) and sa[n] == sb[n]:
        n += 1
    lo = max(0, n - 60)
    return {'in_sequence': sa[lo : n + 160], 'fresh': sb[lo : n + 160]}


def wit_steps(steps: list) -> list:
    return [{'session': s['k'], 'type': s['t'], 'body': s['b'], 'item': s['tag']} for s in steps]


def ukey(st: dict) -> tuple:
    return (st['k'], st['t'], st['b'])


def run_daemon(desc):
    """the property read literally, on REAL processes: two neighbors of different kinds (EBGP / IBGP, or 4-octet / 2-octet AS)
    established at the same time with one daemon receive the same attribute octets in an interleaved history; each session's
    messages are then sent alone to a FRESH daemon.  What the helper process is told about each message (time, counter and pid
    fields aside) must be the same in both"""
    import json as _json
    import time

    from vlib import daemon

    res = Result()
    r = random.Random(desc['seed'] * 15485867 + desc['part'])
    width_case = desc['part'] % 2 == 1  # sessions differ in the AS width, else in IBGP / EBGP
    n1 = {'addr': '127.0.0.2', 'pas': 65001, 'asn4': True}
    n2 = {'addr': '127.0.0.3', 'pas': 65001 if width_case else 65000, 'asn4': not width_case}
    text = 'process sink {\n    run @PY@ @DIR@/sink.py @DIR@/events;\n    encoder json;\n}\n'
    for nb in (n1, n2):
        text += exa.neighbor_text(peer=nb['addr'], pas=nb['pas'], families=[(1, 1), (2, 1)], asn4=True, extra='    adj-rib-in true;\n    api { processes [ sink ]; receive { parsed; update; } }')
    # the messages: attribute blocks legal on both sessions, each sent to both, adjacent, in both orders, with repeats
    bodies = {0: [], 1: []}
    seq = []
    for i in range(desc['messages']):
        if width_case:
            # the octets differ with the AS width: the same intent encoded for each session (same values, same order)
            rr = random.Random(r.getrandbits(32))
            st = rr.getstate()
            b1, _ = gw.gen_update(rr, {'asn4': True, 'addpath': set(), 'ibgp': False}, families=((1, 1), (2, 1)), rich=0.7)
            rr.setstate(st)
            b2, _ = gw.gen_update(rr, {'asn4': False, 'addpath': set(), 'ibgp': False}, families=((1, 1), (2, 1)), rich=0.7)
        else:
            b1, _ = gw.gen_update(r, {'asn4': True, 'addpath': set(), 'ibgp': True}, families=((1, 1), (2, 1)), rich=0.7)
            b2 = b1
        order = [(0, b1), (1, b2)]
        if r.random() < 0.5:
            order.reverse()
        for k, b in order:
            seq.append((k, b))
            if r.random() < 0.2:
                seq.append((k, b))  # the very same message again

    def marker(asn4, n):
        return rw.enc_update_body(b'', rw.enc_attr(0x40, 1, b'\x00') + rw.enc_attr(0x40, 2, b'') + rw.enc_attr(0x40, 3, bytes([192, 0, 2, 1])) + rw.enc_attr(0x40, 5, struct.pack('!L', 100)), bytes([32, 203, 0, 113, n]))

    def run(which):
        """which: set of session indexes taking part -> {session index: [normalised update events]}"""
        d = daemon.Daemon(text, env={'exabgp_log_level': 'ERROR'}, more_addrs=('127.0.0.3',))
        peers = {}
        try:
            d.start()
            for k, nb in enumerate((n1, n2)):
                if k in which:
                    peers[k] = d.accept(addr=None if k == 0 else nb['addr'])
                    peers[k].establish(nb['pas'], peer_asn4=nb['asn4'], rid='10.0.0.%d' % (2 + k))
            for k, b in seq:
                if k in which:
                    peers[k].send(2, b)
                    time.sleep(0.002)  # the interleaving across the two connections is the history: keep the order of arrival
            for k in which:
                peers[k].send(2, marker((n1, n2)[k]['asn4'], 250 + k))
            d.wait_lines('events', lambda ls: all(any('203.0.113.%d/32' % (250 + k) in x for x in ls) for k in which), timeout=90)
            lines = d.lines('events')
            log = d.tail(2000)
        finally:
            for p_ in peers.values():
                p_.close()
            d.stop()
        if 'exception.unhandled' in log or 'Traceback' in log:
            raise RuntimeError('unhandled exception: ' + log[log.find('Traceback') : log.find('Traceback') + 300])
        out = {0: [], 1: []}
        for ln in lines:
            ev = _json.loads(ln)
            if ev.get('type') != 'update':
                continue
            for key in ('time', 'pid', 'ppid', 'counter', 'host'):
                ev.pop(key, None)
            k = 0 if ev['neighbor']['address']['peer'] == n1['addr'] else 1
            if '203.0.113.25' in ln:
                continue
            out[k].append(ev)
        return out

    try:
        both = run({0, 1})
        alone = {0: run({0})[0], 1: run({1})[1]}
    except daemon.Inconclusive as e:
        daemon.skipped(res, str(e))
        return res
    except RuntimeError as e:
        res.violation('C19/daemon:unhandled-exception', str(e)[:300], {'level': 'daemon'}, 'daemon')
        return res
    cls = 'daemon:' + ('as-width' if width_case else 'ibgp-ebgp')
    for k in (0, 1):
        wit = {'level': 'daemon', 'sessions': [n1, n2], 'session': k, 'messages': [b.hex()[:300] for kk, b in seq if kk == k][:40]}
        if len(both[k]) != len(alone[k]):
            res.violation(f'C19/daemon:event-count-differs:{cls}', f'session {k}: {len(both[k])} update events with the other session alongside, {len(alone[k])} alone', wit, cls)
            continue
        diff = [i for i, (a, b) in enumerate(zip(both[k], alone[k])) if a != b]
        if diff:
            i = diff[0]
            res.violation(f'C19/daemon:history-dependent:{cls}', f'session {k}, message {i}: told differently with the other session alongside than alone: {_json.dumps(both[k][i])[:200]} / {_json.dumps(alone[k][i])[:200]}', dict(wit, together=both[k][i], alone=alone[k][i]), cls)
        else:
            res.ok(cls, ('daemon', width_case, k), len(both[k]))
            res.ok('daemon:two-sessions')
    return res


def run_shard(desc):
    if desc.get('daemon'):
        return run_daemon(desc)
    res = Result()
    exa.quiet()
    from exabgp.bgp.message import Message  # noqa: F401 - the template has ExaBGP imported
    from exabgp.bgp.message.update.attribute import Attribute, AttributeCollection
    from exabgp.reactor.api.response import Response  # noqa: F401
    import exabgp

    r = random.Random(desc['seed'] * 7368787 + desc['shard'] * 101 + 19)
    qa = corpus.qa_messages()
    # ---- the workload, generated before anything is decoded
    uni = make_universe(r, qa, desc['shard'], desc['sessions'], desc['bodies'], desc['per_group'])
    plan_seqs = []
    for caching in (True, False):
        for n in range(desc['sequences']):
            length = desc['length'] if n == 0 else r.choice([50, 120, 250, desc['length']])
            plan_seqs.append((caching, make_sequence(r, uni, length)))
    # ---- the pristine template: ExaBGP imported, neighbors configured, encoders built, no OPEN exchanged, no message decoded.
    # Sessions are negotiated inside the children: a fresh child negotiates the one session its message arrives on, a
    # sequence child negotiates each session when its first message arrives.
    sessions = {}
    for name in uni['sessions']:
        sessions[name] = (build_neighbor(KINDS[name]), None)
    if AttributeCollection.cached is not None or AttributeCollection.previous:
        res.inconclusive.append('the template is not pristine: the attribute cache is populated before the first message')
        return res
    global ENC
    ENC = Encoders()
    gc.collect()
    gc.freeze()
    res.extra['exabgp_file'] = exabgp.__file__
    res.extra['production_caching_default'] = [bool(_production_caching())]
    template_caching = Attribute.caching
    F = Forker()
    window = desc.get('window', 3)
    # ---- (b) the reference: ONE fresh child per unique message, each forked from this process and decoding that message only.
    # The reference is taken with the production setting (caching on) on even shards and with caching off on odd shards; the
    # other setting is forked on demand (any disagreement is re-judged against the exact-mode reference) and sampled.
    ref_mode = desc['shard'] % 2 == 0
    used = {}
    for _, steps in plan_seqs:
        for st in steps:
            used.setdefault(ukey(st), st)
    fresh: dict = {True: {}, False: {}}

    def fork_fresh(sts: list, caching: bool) -> None:
        outs = F.run([(child_sequence, ([st], sessions, caching, 'none', 'all')) for st in sts], window, timeout=90)
        for st, out in zip(sts, outs):
            if 'recs' in out:
                fresh[caching][ukey(st)] = out['recs'][0]
            else:
                res.inconclusive.append(f'fresh child: {out.get("failed") or out.get("harness_error")}')

    fork_fresh(list(used.values()), ref_mode)
    sample = r.sample(list(used.values()), 1)
    fork_fresh(sample, not ref_mode)
    for st in sample:
        a, b = fresh[True].get(ukey(st)), fresh[False].get(ukey(st))
        if a and b:
            if a['d'] == b['d']:
                res.ok('fresh-same-under-both-caching-settings')
            else:
                res.count('fresh-depends-on-caching-setting')
    # a second fresh child for one message: two fresh processes must agree (the reference is a function of the message)
    st = r.choice(list(used.values()))
    again = F.one(child_sequence, ([st], sessions, ref_mode, 'none', 'all'), timeout=90) if desc['shard'] % 4 == 0 else {}
    if 'recs' in again and ukey(st) in fresh[ref_mode]:
        if again['recs'][0]['d'] != fresh[ref_mode][ukey(st)]['d']:
            res.violation('C19/fresh-not-deterministic', 'two fresh processes decoding the same message under the same session disagree', {'sequence': wit_steps([st]), 'caching': ref_mode}, 'fresh-determinism')
        else:
            res.ok('fresh-determinism')
    shrinks = [0]
    shrunk: dict = {}
    pair_dims: dict = {}
    nmsg = 0
    state_samples = []
    for sn, (caching, steps) in enumerate(plan_seqs):
        mode = 'caching-on' if caching else 'caching-off'
        # ---- (a) ONE sequence child decoding everything in order
        sq = F.one(child_sequence, (steps, sessions, caching, 'full', 'none'), timeout=180 + 0.3 * len(steps))
        if Attribute.caching != template_caching or AttributeCollection.cached is not None:
            res.inconclusive.append('the template process was altered')
            return res
        if 'recs' not in sq:
            res.inconclusive.append(f'sequence child: {sq.get("failed") or sq.get("harness_error")}')
            continue
        for i, st in enumerate(steps):
            sr = sq['recs'][i]
            fr = fresh[caching].get(ukey(st)) or fresh[not caching].get(ukey(st))
            if fr is None:
                continue
            if sr['d'] != fr['d'] and ukey(st) not in fresh[caching]:
                # judged against the reference of the other caching setting: take the exact one before concluding
                fork_fresh([st], caching)
                fr = fresh[caching].get(ukey(st))
                if fr is None:
                    continue
                if sr['d'] == fr['d']:
                    res.count('fresh-depends-on-caching-setting')
            nmsg += 1
            state = sr['cache']
            # the earlier message that matters: the one which stored the attribute set for a hit, the predecessor otherwise
            pi = sr['owner'] if state == 'hit' and 0 <= sr.get('owner', -1) < i else i - 1
            prev = steps[pi]['k'] if i else st['k']
            tname = TNAME.get(st['t'], str(st['t']))
            cls = f'{width(prev)}->{width(st["k"])}:{state}'
            tags = []
            if st['tag'] == 'extcomm-duplicate':
                tags.append('extcomm-duplicate')
            if st['tag'] == 'eor':
                tags.append('eor')
            if st['tag'].startswith('mp-') and state == 'bypass':
                tags.append('mp-bypass')
            dims = '+'.join(d for d, (x, y) in zip(DIMS, zip(prev.split('/'), st['k'].split('/'))) if x != y) or 'same'
            pair_dims[f'{dims}:{state}'] = pair_dims.get(f'{dims}:{state}', 0) + 1
            for ch in sr.get('state', []):
                res.count('class-state-changed:' + ':'.join(ch[0].split(':')[:2])[:70])
                if len(state_samples) < 4:
                    state_samples.append({'what': ch[0], 'before': ch[1], 'after': ch[2], 'message': wit_steps([st])[0], 'mode': mode})
            if sr['d'] == fr['d']:
                res.ok(cls, (tname, st['tag'], prev, st['k'], state, caching))
                for t in tags:
                    res.ok(t)
                res.count(f'{mode}:{state}')
                continue
            what = next(k for k in PARTS if sr['d'][k] != fr['d'][k])
            for t in tags:
                res.count('disagreement-in:' + t)
            if i == 0:
                res.inconclusive.append(f'the first message of a sequence differs from its fresh decode ({what}): the monitor is not transparent? ' + st['b'][:80])
                continue
            # ---- shrink: the shortest sub-sequence ending with message i on which the disagreement persists
            found = None
            probe_key = (tname, pair_label(prev, st['k']), state, what)
            if probe_key not in shrunk and shrinks[0] < desc.get('shrink_forks', 24):
                # the budget is in forks: a disagreement caused by the message that stored the cached set costs one
                shrunk[probe_key] = True
                before = F.forks
                found = shrink(F, steps, i, pi, sessions, caching, fr['d'], what, budget=min(14, desc.get('shrink_forks', 24) - shrinks[0]))
                shrinks[0] += F.forks - before
            if found is not None:
                sub, last = found
                w_prev, w_state, seqparts, reproduced = sub[-2]['k'], last['cache'], last['parts'], True
            else:
                sub = [steps[pi], steps[i]] if state == 'hit' else steps[max(0, i - 8) : i + 1]  # not replayed: the recent past
                w_prev, w_state, seqparts, reproduced = prev, state, None, False
            fparts = fr.get('parts') or {}
            so, fo = sr['out'], fr['out']
            if what == 'outcome' and 'raise' in (so[0], fo[0]):
                exc = so[1] if so[0] == 'raise' else fo[1]
                key = f'C19/fresh-vs-sequence-raise:{exc}'
                text = f'{tname} on {st["k"]} after {w_prev}: in sequence {so}, in a fresh process {fo}'
            else:
                key = f'C19/history-dependent:{tname}:{pair_label(w_prev, st["k"])}:{w_state}:{what}'
                text = f'{tname} on session {st["k"]} decoded after a message on {w_prev} (attribute-set cache {w_state}, {mode}): {what} differ from the decode of the same bytes in a fresh process'
            wit = {
                'caching': caching,
                'hashseed': desc.get('hashseed', 0),
                'sequence': wit_steps(sub),
                'target': len(sub) - 1,
                'part': what,
                'from': {'shard': desc['shard'], 'sequence': sn, 'index': i, 'length': len(steps)},
                'replayed_in_a_new_child': reproduced,
            }
            if seqparts is not None and fparts:
                wit.update(first_diff(seqparts[what], fparts[what]))
                text += f': {wit["in_sequence"][:140]} / {wit["fresh"][:140]}'
            res.violation(key, text, wit, cls)
        # ---- shared-object immutability
        mut_by_i: dict = {}
        for m in sq['mutated']:
            mut_by_i.setdefault(m['i'], m)
        for i, st in enumerate(steps):
            if sq['recs'][i]['out'][0] != 'decoded':
                continue
            tname = TNAME.get(st['t'], str(st['t']))
            m = mut_by_i.get(i)
            if m is None:
                res.ok('result-unaltered:' + tname)
                continue
            name = m['names'][0]
            by = m['by']
            sub = None
            if by is not None and ('mut', name) not in shrunk:
                shrunk[('mut', name)] = True
                trial = F.one(child_sequence, ([steps[i], steps[by]], sessions, caching, 'full', 'none'), timeout=90)
                if any(x['i'] == 0 and name in x['names'] for x in trial.get('mutated', [])):
                    sub = [steps[i], steps[by]]
                    res.count('mutation-witness-replayed')
            if sub is None:
                sub = [steps[i], steps[by]] if by is not None else steps[i : i + 6]
            wit = {
                'caching': caching,
                'hashseed': desc.get('hashseed', 0),
                'sequence': wit_steps(sub),
                'altered_result': 0,
                'altered_by': None if by is None else len(sub) - 1,
                'what': m['names'],
                'was': m['was'],
                'now': m['now'],
                'from': {'shard': desc['shard'], 'sequence': sn, 'index': i, 'by': by},
            }
            res.violation(
                f'C19/shared-object-mutated:{name}',
                f'the result of {tname} #{i} on {st["k"]} was altered ({", ".join(m["names"][:4])}) by the decoding of a later message' + (f' (#{by}, {TNAME.get(steps[by]["t"])} on {steps[by]["k"]})' if by is not None else ''),
                wit,
                'result-unaltered:' + tname,
            )
        res.count('sequences')
        res.count('sequences:' + mode)
        res.sample({'sessions': uni['sessions'], 'unique_messages': len(used), 'length': len(steps), 'mode': mode, 'first': wit_steps(steps[:3])}, limit=1)
    res.extra['forks'] = F.forks
    res.extra['messages'] = nmsg
    res.extra['unique_messages'] = len(used)
    res.extra['child_timeouts'] = F.timeouts
    res.extra['session_pair_dimensions'] = pair_dims
    res.extra['class_state_samples'] = state_samples
    if F.timeouts:
        res.inconclusive.append(f'{F.timeouts} children killed by the watchdog')
    return res


def _production_caching() -> bool:
    """application/server.py: `if env.cache.attributes: Attribute.caching = env.cache.attributes` - the configured default"""
    from exabgp.environment import getenv

    return bool(getenv().cache.attributes)


def shrink(F: Forker, steps: list, i: int, pi: int, sessions: dict, caching: bool, target: dict, what: str, budget: int = 14):
    """-> (sub-sequence ending with steps[i], record of its last message with full parts) or None if never reproduced.

    The trials run with the transparent spy only (no re-rendering, no snapshots): what persists is the doing of production code."""
    used = [0]

    def fails(idx: list):
        if used[0] >= budget:
            return None
        used[0] += 1
        out = F.one(child_sequence, ([steps[k] for k in idx] + [steps[i]], sessions, caching, 'spy', 'last'), timeout=120)
        if 'recs' not in out:
            return None
        last = out['recs'][-1]
        return last if last['d'][what] != target[what] else None

    # most disagreements need one earlier message: try the neighbours first
    for j in dict.fromkeys([pi] + list(range(i - 1, max(-1, i - 3), -1))):
        last = fails([j])
        if last is not None:
            return [steps[j], steps[i]], last
    cur = list(range(i))
    last = fails(cur)
    if last is None:
        return None
    n = 2
    while len(cur) >= 2 and used[0] < budget:
        size = max(1, len(cur) // n)
        chunks = [cur[k : k + size] for k in range(0, len(cur), size)]
        reduced = False
        for c in range(len(chunks)):
            rest = [x for cc, ch in enumerate(chunks) if cc != c for x in ch]
            got = fails(rest)
            if got is not None:
                cur, last, reduced = rest, got, True
                n = max(n - 1, 2)
                break
        if not reduced:
            if size == 1:
                break
            n = min(len(cur), n * 2)
    return [steps[k] for k in cur] + [steps[i]], last


def finish(merged, tier, seed):
    ex = merged['extra']
    ex['summary'] = {
        'messages_compared_with_a_fresh_process': ex.get('messages', 0),
        'unique_messages_each_decoded_in_its_own_fresh_child': ex.get('unique_messages', 0),
        'forks': ex.get('forks', 0),
        'sequences': merged['info'].get('sequences', 0),
    }
