"""C02 - reported routes are exactly what the peer sent.

Well-formed UPDATE bodies are built by the refwire encoder from a semantic description (the *intent*); the real
Message.unpack -> Response.JSON(...).update(...) path and the real UpdateHandler -> Adj-RIB-In path are observed
and compared with the intent (and with the reference decoder run on the same bytes, a self check of the trusted base).
"""

from __future__ import annotations

import asyncio
import random
import struct
import types

from vlib import corpus, exa, gen_wire as gw, norm
from vlib import refwire as rw
from vlib.mon import Result

PROPERTY = 'C02'
LEVEL = 'exploration'
RULE = (
    'UPDATE bodies generated from semantic descriptions: any mix of withdrawn / attributes / NLRI / MP_REACH / MP_UNREACH for '
    'ipv4+ipv6 unicast, labeled, vpn; random attribute order, gratuitous extended length, unknown attributes of all flag '
    'kinds, ADD-PATH per session, several NLRI per attribute, 32-byte next hops, End-of-RIB of both forms; session kinds = '
    '{asn4, 2-byte with AS4_PATH} x {add-path, none} x {ibgp, ebgp}. distinct = distinct (session kind, section mix, '
    'attribute key set, NLRI count bucket) signatures'
)
ASSUMPTIONS = [
    'vlib/norm maps the v6 JSON vocabulary to refwire canonical values (exercised by the refwire self check on every case)',
    'labels of withdrawn labeled/vpn routes carry no meaning (RFC 8277) and are not compared',
    'AIGP is only relayed when the neighbor enables it (RFC 7311 session option): not compared',
    'unrecognised optional non-transitive attributes may be absent, as the statement allows',
]
MANIFEST = {
    'level': 'exploration',
    'technique': 'runtime differential monitor: real UPDATE decode -> JSON API event and Adj-RIB-In vs the intent the bytes were built from (independent encoder) over generated well-formed UPDATEs; a sample of the same UPDATE stream sent over TCP to the real daemon process and judged on the JSON lines its real helper process receives',
    'text': 'Generated well-formed UPDATEs are decoded by the real code under production-built negotiated sessions; the announce / '
    'withdraw sets, next hops, attribute values, merged AS path and End-of-RIB family reported on the JSON API and the content '
    'of Adj-RIB-In after the real UpdateHandler are compared with the intent. Held = no disagreement on the generated cases.',
    'note': 'trusted base: refwire encoder/decoder + vlib/norm; only the IP families (unicast, labeled, vpn) have a semantic oracle',
}
SHARD_TIMEOUT = {'quick': 300, 'thorough': 1800}

FAMS = ((1, 1), (2, 1), (1, 4), (2, 4), (1, 128), (2, 128))


def sessions():
    out = []
    for asn4 in (True, False):
        for ap in (0, 3):
            for ibgp in (False, True):
                out.append({'asn4': asn4, 'addpath': ap, 'ibgp': ibgp, 'aigp': False, 'name': f'{"asn4" if asn4 else "as2"}/{"ap" if ap else "noap"}/{"ibgp" if ibgp else "ebgp"}'})
    # ADD-PATH negotiated one way only: we receive and the peer sends (path identifiers in what arrives), we send and the peer
    # receives (none in what arrives)
    for ap, tag in ((1, 'ap-recv-only'), (2, 'ap-send-only')):
        out.append({'asn4': True, 'addpath': ap, 'ibgp': False, 'aigp': False, 'name': f'asn4/{tag}/ebgp'})
    # the same with the AIGP session option (capability { aigp enable; }): the attribute is accepted there only
    for asn4, ap, ibgp in ((True, 0, True), (False, 0, False), (True, 3, False)):
        out.append({'asn4': asn4, 'addpath': ap, 'ibgp': ibgp, 'aigp': True, 'name': f'{"asn4" if asn4 else "as2"}/{"ap" if ap else "noap"}/{"ibgp" if ibgp else "ebgp"}/aigp'})
    return out


def expected_recv_addpath(sk) -> set:
    """RFC 7911: a path identifier precedes the NLRI we receive when WE advertised receive and THE PEER advertised send.  The
    peer mirrors our capability (our receive is its send): configured receive (1) or send/receive (3) for the six families.
    Computed from the configuration, not read from ExaBGP's own negotiation"""
    return set(FAMS) if sk['addpath'] in (1, 3) else set()


def build_session(sk):
    las = 65000
    pas = 65000 if sk['ibgp'] else 65001
    nb = corpus.all_families_neighbor(las=las, pas=pas, asn4=True, addpath=sk['addpath'], adj_rib_in=True)
    from exabgp.util.enumeration import TriState

    nb.capability.aigp = TriState.TRUE if sk.get('aigp') else TriState.FALSE
    neg = corpus.mirror_session(nb, peer_asn4=sk['asn4'])
    return nb, neg


def plan(tier, seed):
    n = 16 if tier == 'quick' else 64
    out = [{'shard': i, 'messages': 700 if tier == 'quick' else 6000} for i in range(n)]
    # the real daemon with a real helper process (one session kind per shard, rotating with the seed)
    out += [{'shard': 900 + i, 'daemon': True, 'part': i, 'messages': 150 if tier == 'quick' else 800} for i in range(4 if tier == 'quick' else 13)]
    return out


def expected_from_intent(intent, recv_ap):
    exp = {'eor': intent['eor'], 'announce': [], 'withdraw': []}
    for n, hops in intent['announce']:
        exp['announce'].append((norm.nlri_expected(n), tuple(hops)))
    for n in intent['withdraw']:
        exp['withdraw'].append(norm.nlri_expected(n, True))
    exp['announce'].sort(key=repr)
    exp['withdraw'].sort(key=repr)
    exp['attrs'] = norm.attrs_expected(intent['attrs'])
    exp['attrs'].pop('next_hop', None)
    return exp


def nexthop_matches(observed: str, hops: tuple) -> bool:
    if not hops:
        return observed in ('', 'null', 'None')
    if observed == hops[0]:
        return True
    # 32 byte next hop: global + link-local; accept any rendering that names the global address first
    return observed.split(' ')[0].split(',')[0] == hops[0]


def judge(res, sk, neg_aigp, intent, exp, text, wit, cls, kind, nbucket):
    """one JSON event (text) against what the reference decoder says the UPDATE carried"""
    try:
        ev = norm.strict_loads(text)
        obs = norm.update_observed(ev)
    except Exception as e:  # noqa
        key = 'C02/json-unparseable:eor' if intent['eor'] else f'C02/json-unparseable:{type(e).__name__}'
        res.violation(key, f'JSON event does not parse: {type(e).__name__} {str(e)[:100]}', dict(wit, json=text[:600]), cls)
        return
    wit['observed'] = {k: obs[k] for k in ('announce', 'withdraw', 'eor', 'attrs')}
    wit['expected'] = exp
    bad = False
    if obs['eor'] != exp['eor']:
        res.violation(f'C02/eor-family:{exp["eor"]}', f'End-of-RIB reported for {obs["eor"]}, sent for {exp["eor"]}', wit, cls)
        return
    oa = [x[0] for x in obs['announce']]
    ea = [x[0] for x in exp['announce']]
    if oa != ea:
        fam_obs = sorted({x[0] for x in oa})
        fam_exp = sorted({x[0] for x in ea})
        if fam_obs != fam_exp:
            key = 'C02/announce-family'
        elif len(oa) != len(ea):
            key = 'C02/announce-count:' + ('dropped' if len(oa) < len(ea) else 'invented')
        else:
            diff = [i for i in range(len(oa)) if oa[i] != ea[i]]
            fields = sorted({('prefix', 'path-id', 'labels', 'rd')[j - 1] for i in diff for j in range(1, 5) if oa[i][j] != ea[i][j]})
            key = 'C02/announce-differs:' + '+'.join(fields) + f':safi{ea[diff[0]][0][1]}'
        res.violation(key, 'announced set reported differs from what was sent', wit, cls)
        bad = True
    else:
        for (n, nh), (_, hops) in zip(obs['announce'], exp['announce']):
            if not nexthop_matches(nh, hops):
                res.violation(f'C02/nexthop:safi{n[0][1]}:{"ll" if len(hops) > 1 else "single"}', f'next hop reported {nh!r}, sent {hops}', wit, cls)
                bad = True
                break
    if obs['withdraw'] != exp['withdraw']:
        key = 'C02/withdraw-count' if len(obs['withdraw']) != len(exp['withdraw']) else 'C02/withdraw-differs'
        res.violation(key, 'withdrawn set reported differs from what was sent', wit, cls)
        bad = True
    oattr = dict(obs['attrs'])
    oattr.pop('next_hop', None)
    eattr = dict(exp['attrs'])
    # AIGP (RFC 7311): reported with its value on a session configured for it, removed everywhere else
    if bool(neg_aigp) != bool(sk.get('aigp')):
        res.inconclusive.append(f'session {sk["name"]}: negotiated aigp={neg_aigp}')
        return
    if 'aigp' in oattr:
        try:
            oattr['aigp'] = int(str(oattr['aigp']), 0)
        except ValueError:
            pass
    if (sk.get('aigp') or sk['ibgp']) and intent['attrs'] and 'aigp' in intent['attrs']:  # RFC 7311 3.1: enabled by default on IBGP
        eattr['aigp'] = intent['attrs']['aigp']
        res.count('aigp-compared:configured-session')
    elif intent['attrs'] and 'aigp' in intent['attrs']:
        res.count('aigp-compared:plain-session')
    if not (intent['announce'] or intent['withdraw']):
        eattr = oattr  # nothing to attach attributes to
    if intent['withdraw'] and not intent['announce']:
        eattr = oattr
    if eattr.get('as_path') == [] and 'as_path' not in oattr:
        oattr['as_path'] = []  # an empty AS_PATH is simply not rendered
    for k in sorted(set(oattr) | set(eattr)):
        if oattr.get(k) != eattr.get(k):
            sub = ''
            if k == 'as_path':
                sub = ':asn4' if sk['asn4'] else ':as4-merge'
            res.violation(f'C02/attribute:{k}{sub}', f'attribute {k} reported {oattr.get(k)!r}, sent {eattr.get(k)!r}', wit, cls)
            bad = True
            break
    if not bad:
        res.ok(cls, (sk['name'], kind, tuple(sorted(eattr)), nbucket))
        for k in eattr:
            res.ok('attr:' + k)
        res.sample({'session': sk['name'], 'kind': kind, 'announce': [str(x) for x in exp['announce'][:2]], 'attrs': sorted(eattr)}, limit=3)



def run_daemon(desc, deliver=None):
    """(deliver: how the octets of a message are handed to the socket; C06 passes a segmenting sender)
    the same oracle over the REAL daemon: python -m exabgp server, a forked helper reading the JSON events from its pipe,
    the UPDATEs sent over TCP by a scripted peer.  Nothing of ExaBGP runs in this process besides the (separate) in-process
    negotiation used to learn which families take a path identifier"""
    from vlib import daemon

    res = Result()
    exa.quiet()
    r = random.Random(desc['seed'] * 32452843 + desc['part'])
    kinds = sessions()
    sk = kinds[(desc['part'] + desc['seed']) % len(kinds)]
    nb, neg = build_session(sk)
    recv_ap = expected_recv_addpath(sk)
    s = {'asn4': sk['asn4'], 'addpath': recv_ap, 'ibgp': sk['ibgp'], 'enh': bool(neg.nexthop)}
    las, pas = 65000, (65000 if sk['ibgp'] else 65001)
    extra = 'api { processes [ sink ]; receive { parsed; update; } }'
    text = 'process sink {\n    run @PY@ @DIR@/sink.py @DIR@/events;\n    encoder json;\n}\n' + corpus.all_families_text(las=las, pas=pas, asn4=True, addpath=sk['addpath'], adj_rib_in=True, extra=extra)
    if sk.get('aigp'):
        text = text.replace('capability {', 'capability { aigp enable;', 1)
    compact = desc['part'] % 3 == 2
    d = daemon.Daemon(text, env={'exabgp_api_compact': 'true'} if compact else None)
    sent = []
    try:
        d.start()
        peer = d.accept()
        peer.establish(pas, peer_asn4=sk['asn4'])
        for i in range(desc['messages']):
            body, intent = gw.gen_update(r, s, families=FAMS, rich=0.6)
            try:
                rw.dec_update(body, rw.sess(asn4=sk['asn4'], addpath=recv_ap))
            except rw.RefError:
                continue
            sent.append((body, intent))
            if deliver is None:
                peer.send(2, body)
            else:
                deliver(peer, rw.message(2, body), False)
        marker = rw.enc_update_body(b'', rw.enc_attr(0x40, 1, b'\x00') + rw.enc_attr(0x40, 2, b'' if sk['ibgp'] else (bytes([2, 1]) + (struct.pack('!L', pas) if sk['asn4'] else struct.pack('!H', pas)))) + rw.enc_attr(0x40, 3, bytes([192, 0, 2, 1])) + (rw.enc_attr(0x40, 5, struct.pack('!L', 100)) if sk['ibgp'] else b''), (b'\x00\x00\x00\x01' if (1, 1) in recv_ap else b'') + bytes([32, 203, 0, 113, 255]))
        if deliver is None:
            peer.send(2, marker)
        else:
            deliver(peer, rw.message(2, marker), True)
        lines = d.wait_lines('events', lambda ls: any('203.0.113.255' in x for x in ls), timeout=60)
        rest = peer.drain(quiet=0.2, limit=2)
        if any(t == 3 for t, _ in rest):
            n = [b for t, b in rest if t == 3][0]
            res.violation(f'C02/daemon:refuses-wellformed:{n[0]}/{n[1]}', f'the daemon answered a well-formed UPDATE stream with NOTIFICATION {n[0]}/{n[1]} {bytes(n[2:])[:80]!r}', {'session': sk['name'], 'bodies': [b.hex() for b, _ in sent][-5:]}, 'daemon')
            return res
    except daemon.Inconclusive as e:
        notif = [b for t, b in getattr(locals().get('peer'), 'rx', []) if t == 3]
        if notif:
            n = notif[0]
            res.violation(f'C02/daemon:refuses-wellformed:{n[0]}/{n[1]}', f'the daemon answered a well-formed UPDATE stream with NOTIFICATION {n[0]}/{n[1]} {bytes(n[2:])[:80]!r}', {'session': sk['name'], 'bodies': [b.hex() for b, _ in sent][-5:]}, 'daemon')
        else:
            daemon.skipped(res, str(e))
        return res
    finally:
        try:
            peer.close()
        except Exception:  # noqa
            pass
        d.stop()
    events = []
    for ln in lines:
        try:
            ev = norm.strict_loads(ln)
        except Exception as e:  # noqa
            res.violation(f'C02/daemon:json-unparseable:{type(e).__name__}', f'a line the helper received does not parse: {ln[:200]}', {'session': sk['name'], 'line': ln[:1000]}, 'daemon')
            return res
        if ev.get('type') == 'update':
            events.append(ln)
    events = events[:-1]  # the marker
    if len(events) != len(sent):
        res.violation('C02/daemon:event-count:' + ('dropped' if len(events) < len(sent) else 'invented'), f'{len(sent)} UPDATEs sent, {len(events)} update events reached the helper', {'session': sk['name'], 'bodies': [b.hex() for b, _ in sent], 'events': events[:50]}, 'daemon')
        return res
    for (body, intent), text in zip(sent, events):
        kind = intent.get('kind') or ('eor' if intent['eor'] else '?')
        nbucket = 'many' if len(intent['announce']) + len(intent['withdraw']) > 3 else 'few'
        wit = {'session': sk['name'], 'body': body.hex(), 'intent': intent, 'level': 'daemon', 'compact': compact}
        before = sum(v['count'] for v in res.violations)
        judge(res, sk, sk.get('aigp'), intent, expected_from_intent(intent, recv_ap), text, wit, f'daemon:{sk["name"]}:{kind}', kind, nbucket)
        if sum(v['count'] for v in res.violations) == before:
            res.ok('daemon' + (':compact' if compact else ''))
    return res


def run_shard(desc):
    if desc.get('daemon'):
        return run_daemon(desc)
    from exabgp.bgp.message import Message, Notify
    from exabgp.reactor.api.response import Response
    from exabgp.reactor.peer.handlers import UpdateHandler
    from exabgp.version import json as json_version

    res = Result()
    exa.quiet()
    r = random.Random(desc['seed'] * 15485863 + desc['shard'])
    kinds = sessions()
    built = {}
    loop = asyncio.new_event_loop()
    for i in range(desc['messages']):
        sk = kinds[(i + desc['shard']) % len(kinds)]
        if sk['name'] not in built:
            built[sk['name']] = build_session(sk)
        nb, neg = built[sk['name']]
        recv_ap = expected_recv_addpath(sk)
        s = {'asn4': sk['asn4'], 'addpath': recv_ap, 'ibgp': sk['ibgp'], 'enh': bool(neg.nexthop)}
        if bool(neg.asn4) != sk['asn4']:
            res.inconclusive.append(f'session {sk["name"]}: negotiated asn4={neg.asn4}')
            continue
        body, intent = gw.gen_update(r, s, families=FAMS, rich=0.6)
        wit = {'session': sk['name'], 'body': body.hex(), 'intent': intent}
        exp = expected_from_intent(intent, recv_ap)
        # --- trusted base self check: the reference decoder must agree with the intent
        try:
            ref = rw.dec_update(body, rw.sess(asn4=sk['asn4'], addpath=recv_ap))
            ra = sorted(((norm.nlri_expected(n), tuple(h)) for n, h in ref['announce']), key=repr)
            rwd = sorted((norm.nlri_expected(n, True) for n in ref['withdraw']), key=repr)
            if ra != exp['announce'] or rwd != exp['withdraw'] or ref['eor'] != exp['eor']:
                res.inconclusive.append('refwire self check: decode(encode(intent)) != intent ' + body.hex()[:120])
                continue
            if intent['attrs'] and 'as_path' in intent['attrs'] and ref['as_path'] != rw.normalise_path(intent['attrs']['as_path']):
                res.inconclusive.append('refwire self check: merged AS path != intent ' + body.hex()[:120])
                continue
            res.count('refwire-selfcheck')
        except rw.RefError as e:
            res.inconclusive.append(f'refwire refuses its own UPDATE: {e} {body.hex()[:120]}')
            continue
        # --- the real decode + JSON event
        kind = intent.get('kind') or ('eor' if intent['eor'] else '?')
        if intent.get('enh'):
            res.count('ipv4-family-with-ipv6-nexthop')
        nbucket = 'many' if len(intent['announce']) + len(intent['withdraw']) > 3 else 'few'
        cls = f'{sk["name"]}:{kind}'
        try:
            msg = Message.unpack(2, memoryview(body), neg)  # a memoryview, as Connection.reader hands the body over
            collection = msg if getattr(msg, 'IS_EOR', False) else msg.data
            if i % 4 == 3:
                # the non-default 'exabgp.api.compact' encoding (bare prefix strings for NLRI without qualifiers)
                from exabgp.environment import getenv

                env = getenv()
                env.api.compact = True
                try:
                    text = Response.JSON(json_version).update(nb, 'receive', collection, b'', b'', neg)
                finally:
                    env.api.compact = False
                res.count('json-compact-encoding')
            else:
                text = Response.JSON(json_version).update(nb, 'receive', collection, b'', b'', neg)
        except Notify as n:
            res.violation(f'C02/refuses-wellformed:{n.code}/{n.subcode}:{kind}', f'well-formed UPDATE refused with {n.code}/{n.subcode}: {str(n)[:120]}', wit, cls)
            continue
        except Exception as e:  # noqa
            res.violation(f'C02/decode-raises:{type(e).__name__}:{kind}', f'well-formed UPDATE raised {type(e).__name__}: {str(e)[:120]}', wit, cls)
            continue
        judge(res, sk, neg.aigp, intent, exp, text, wit, cls, kind, nbucket)

    # ---- Adj-RIB-In over sequences
    for sk in kinds:
        if sk['name'] not in built:
            built[sk['name']] = build_session(sk)
        nb, neg = built[sk['name']]
        recv_ap = expected_recv_addpath(sk)
        s = {'asn4': sk['asn4'], 'addpath': recv_ap, 'ibgp': sk['ibgp']}
        for seq in range(2 if desc['tier'] == 'quick' else 12):
            nb.rib.incoming.clear()
            table = rw.PeerTable()
            handler = UpdateHandler()

            class Stats(dict):
                def __missing__(self, k):
                    return 0

            ctx = types.SimpleNamespace(proto=None, neighbor=nb, negotiated=neg, refresh_enhanced=False, routes_per_iteration=25, peer_id='peer-verif', stats=Stats())
            bodies = []
            overlap = False
            for j in range(r.randrange(3, 25)):
                body, intent = gw.gen_update(r, s, families=FAMS, rich=0.3)
                if intent['eor']:
                    continue
                bodies.append(body.hex())
                try:
                    # the production receive path: Protocol.read_message over a socket pair (what it does not hand over - a
                    # message it turns into a NOP - never reaches the handler, exactly as in Peer._main), then the handler
                    from vlib.props import c08

                    out = loop.run_until_complete(c08.through_read_message(nb, neg, body))
                    if out[0] != 'msg':
                        res.violation(f'C02/ribin-refuses-wellformed:{out[1]}', f'read_message answered {out[1:]} to a well-formed UPDATE', {'session': sk['name'], 'body': body.hex()[:400]}, 'ribin')
                        break
                    msg = out[1]
                    if getattr(msg, 'IS_EOR', False):
                        continue
                    if getattr(msg, 'SCHEDULING', False):
                        res.count('ribin:update-not-handed-over-by-read_message')
                    elif handler.can_handle(msg):
                        loop.run_until_complete(handler.handle_async(ctx, msg))
                except Exception as e:  # noqa
                    res.violation(f'C02/ribin-raises:{type(e).__name__}', f'UpdateHandler raised {type(e).__name__}: {str(e)[:100]}', {'session': sk['name'], 'bodies': bodies[-3:]}, 'ribin')
                    break
                ref = rw.dec_update(body, rw.sess(asn4=sk['asn4'], addpath=recv_ap))
                wk = {rw.nlri_key(n) for n in ref['withdraw']}
                # withdrawn labels are meaningless: match on everything but labels
                ak = {rw.nlri_key(n) for n, _ in ref['announce']}
                strip = lambda k: (k[0], k[1], k[2], k[4], k[5])  # noqa: E731
                if {strip(k) for k in wk} & {strip(k) for k in ak}:
                    overlap = True
                # apply: withdrawals first, then announcements (RFC 4271 4.3 / 9: an announce in the same UPDATE wins)
                for k in list(table.routes):
                    if strip(k) in {strip(x) for x in wk}:
                        del table.routes[k]
                for n, hops in ref['announce']:
                    for k in list(table.routes):
                        if strip(k) == strip(rw.nlri_key(n)):
                            del table.routes[k]
                    table.routes[rw.nlri_key(n)] = {'nexthop': tuple(hops)}
            else:
                got = {}
                for route in nb.rib.incoming.cached_routes():
                    n = route.nlri
                    try:
                        item = norm.strict_loads(n.json())
                    except Exception as e:  # noqa
                        res.violation('C02/ribin-nlri-json', f'NLRI json of a stored route does not parse: {e}', {'json': n.json()[:300]}, 'ribin')
                        continue
                    key = norm.nlri_observed((int(n.afi), int(n.safi)), item)
                    got[(key[0], key[1], key[2], key[4])] = str(route.nexthop)
                want = {}
                for k, v in table.routes.items():
                    e = norm.nlri_expected({'afi': k[0], 'safi': k[1], 'pathid': k[2], 'labels': k[3], 'rd': k[4], 'prefix': k[5]})
                    want[(e[0], e[1], e[2], e[4])] = v['nexthop']
                wit = {'session': sk['name'], 'bodies': bodies, 'stored': sorted(map(repr, got.items()))[:40], 'expected': sorted(map(repr, want.items()))[:40]}
                if overlap and set(got) != set(want):
                    # RFC 4271 4.3 only says SHOULD for a prefix both withdrawn and announced in one UPDATE: logged
                    res.count('ribin-overlap-in-one-update-differs')
                elif set(got) != set(want):
                    extra = set(got) - set(want)
                    missing = set(want) - set(got)
                    key = 'C02/ribin-overlap-same-update' if overlap else ('C02/ribin-missing' if missing else 'C02/ribin-extra')
                    res.violation(key, f'Adj-RIB-In differs from the reference table: missing {sorted(map(repr, missing))[:3]} extra {sorted(map(repr, extra))[:3]}', wit, 'ribin')
                else:
                    badnh = [k for k in got if not nexthop_matches(got[k], want[k])]
                    if badnh:
                        res.violation('C02/ribin-nexthop', f'stored next hop {got[badnh[0]]!r} != {want[badnh[0]]}', wit, 'ribin')
                    else:
                        res.ok('ribin:' + sk['name'], ('ribin', sk['name'], len(want) // 5))
    return res


REQUIRED_CLASSES = {
    'quick': ['attr:as_path', 'attr:communities', 'attr:med', 'attr:local_pref', 'attr:origin', 'attr:ext_communities', 'attr:large_communities', 'attr:cluster_list', 'attr:unknown', 'attr:aggregator']
    + [f'ribin:{s["name"]}' for s in sessions()]
    + ['daemon'],
}
REQUIRED_CLASSES['thorough'] = REQUIRED_CLASSES['quick']
