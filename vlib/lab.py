"""lab - the session laboratory.

One process contains: a virtual-clock asyncio loop (VLoop), the REAL exabgp Reactor built from a
configuration file and running its real `run_async()` main loop with real Peer/Protocol/Connection
objects over real loopback TCP, harness-owned pipes standing in for the API helper program, and
scripted remote BGP speakers built on refwire. Taps record an event log with one sequence.

Nothing in here re-implements ExaBGP; the only substitutions are the clock (time.time, loop.time),
`subprocess.Popen` inside exabgp.reactor.api.processes (harness-owned pipes), Daemon side effects
(chdir/umask/pid) and signal handlers (restored to default).
"""

from __future__ import annotations

import asyncio
import json
import os
import selectors
import signal
import socket
import struct
import sys
import tempfile
import time as _time
import types

from vlib import exa
from vlib import refwire as rw

EPOCH = 1_700_000_000.0
_real_time = _time.time
_real_sleep = _time.sleep


class VClock:
    def __init__(self, quantum: float = 0.0002) -> None:
        self.now = 0.0
        self.quantum = quantum
        self.iterations = 0
        self.real_waits = 0

    def time(self) -> float:
        return EPOCH + self.now


class VLoop(asyncio.SelectorEventLoop):
    """SelectorEventLoop whose time() is virtual. Ready I/O is delivered at once; when nothing is ready
    the clock jumps by the requested timeout; a zero timeout (the reactor spins on sleep(0)) costs one quantum."""

    def __init__(self, clock: VClock) -> None:
        super().__init__(selectors.DefaultSelector())
        self.vclock = clock
        real_select = self._selector.select

        def select(timeout=None):
            clock.iterations += 1
            events = real_select(0)
            if events:
                clock.now += clock.quantum
                return events
            if timeout is None:
                # nothing scheduled at all: only real I/O can wake us; wait a little for the kernel
                clock.real_waits += 1
                events = real_select(0.02)
                clock.now += clock.quantum
                return events
            if timeout <= 0:
                clock.now += clock.quantum
                return events
            clock.now += timeout
            return events

        self._selector.select = select  # type: ignore[method-assign]

    def time(self) -> float:
        return self.vclock.now


class FakePopen:
    """harness-owned pipes standing in for the helper program"""

    registry: dict[str, 'FakePopen'] = {}
    counter = 1000

    def __init__(self, run, stdin=None, stdout=None, env=None, preexec_fn=None, **kw):
        FakePopen.counter += 1
        self.pid = FakePopen.counter
        self.run = run
        # exabgp writes events to our stdin, reads commands from our stdout
        r_in, w_in = os.pipe()  # exabgp -> helper
        r_out, w_out = os.pipe()  # helper -> exabgp
        self.stdin = os.fdopen(w_in, 'wb', buffering=0)
        self.stdout = os.fdopen(r_out, 'rb', buffering=0)
        self.helper_read = r_in
        self.helper_write = w_out
        os.set_blocking(r_in, False)
        os.set_blocking(w_out, False)
        self.returncode = None
        name = ' '.join(run) if isinstance(run, (list, tuple)) else str(run)
        FakePopen.registry[name] = self
        self.name = name
        self.received = b''

    def poll(self):
        return self.returncode

    def wait(self, timeout=None):
        return 0

    def terminate(self):
        self.returncode = 0

    def kill(self):
        self.returncode = -9

    # harness side
    def send(self, data: bytes) -> None:
        os.write(self.helper_write, data)

    def drain(self) -> bytes:
        while True:
            try:
                chunk = os.read(self.helper_read, 65536)
            except BlockingIOError:
                break
            except OSError:
                break
            if not chunk:
                break
            self.received += chunk
        return self.received


class RemoteSession:
    """one TCP connection between the scripted remote speaker and ExaBGP"""

    def __init__(self, lab: 'Lab', sock: socket.socket, origin: str) -> None:
        self.lab = lab
        self.sock = sock
        self.origin = origin  # 'accepted' (exabgp connected to us) or 'initiated'
        self.rx = b''  # everything received from exabgp
        self.rx_log: list[tuple[float, bytes]] = []
        self.tx_log: list[tuple[float, bytes]] = []
        self.eof_at: float | None = None
        self.closed_local_at: float | None = None
        self.reset_seen = False
        self.reading = True
        self.read_rate: float | None = None  # octets per virtual second the remote takes from its socket (None: as fast as they come)
        # kernel TCP timing is real while our clock is virtual: never let Nagle / delayed ACK hold bytes back
        # (40 ms of real time would be minutes of virtual time)
        try:
            sock.setsockopt(socket.IPPROTO_TCP, socket.TCP_NODELAY, 1)
            sock.setsockopt(socket.IPPROTO_TCP, socket.TCP_QUICKACK, 1)
        except OSError:
            pass
        self._task = asyncio.ensure_future(self._reader())
        self.id = len(lab.sessions)
        lab.sessions.append(self)
        lab.event('remote-connected', session=self.id, origin=origin)

    async def _reader(self) -> None:
        loop = asyncio.get_event_loop()
        try:
            while True:
                if not self.reading:
                    await asyncio.sleep(0.01)
                    continue
                if self.read_rate:
                    # a slow consumer: a small bite, then a pause which makes the average the requested rate
                    bite = max(1, min(2048, int(self.read_rate / 5)))
                    data = await loop.sock_recv(self.sock, bite)
                    await asyncio.sleep(len(data) / self.read_rate)
                else:
                    data = await loop.sock_recv(self.sock, 65536)
                try:
                    self.sock.setsockopt(socket.IPPROTO_TCP, socket.TCP_QUICKACK, 1)
                except OSError:
                    pass
                if not data:
                    self.eof_at = self.lab.clock.now
                    self.lab.event('remote-eof', session=self.id)
                    return
                self.rx += data
                self.rx_log.append((self.lab.clock.now, data))
        except (ConnectionResetError, BrokenPipeError, OSError) as e:
            self.eof_at = self.lab.clock.now
            self.reset_seen = isinstance(e, ConnectionResetError)
            self.lab.event('remote-eof', session=self.id, error=type(e).__name__)
        except asyncio.CancelledError:
            pass

    @property
    def closed(self) -> bool:
        return self.eof_at is not None

    async def send(self, data: bytes) -> bool:
        try:
            await asyncio.get_event_loop().sock_sendall(self.sock, data)
            self.tx_log.append((self.lab.clock.now, data))
            return True
        except OSError:
            return False

    def messages(self, maxsize: int = 65535):
        """frame what we received so far -> [(type, body)], leftover"""
        msgs, fault, rest = rw.frame(self.rx, maxsize, known_types=tuple(range(256)))
        return msgs, rest

    def timed_messages(self):
        """-> [(virtual time the LAST byte of the message arrived, type, body)]"""
        out = []
        buf = b''
        for t, data in self.rx_log:
            buf += data
            while len(buf) >= 19:
                ln = struct.unpack('!H', buf[16:18])[0]
                if ln < 19 or len(buf) < ln:
                    break
                out.append((t, buf[18], buf[19:ln]))
                buf = buf[ln:]
        return out

    async def wait_for(self, pred, vtimeout: float) -> bool:
        end = self.lab.clock.now + vtimeout
        while self.lab.clock.now < end:
            if pred(self):
                return True
            await asyncio.sleep(0.01)
        return pred(self)

    async def wait_message(self, mtype: int, vtimeout: float = 10.0, count: int = 1) -> bool:
        return await self.wait_for(lambda s: sum(1 for t, _ in s.messages()[0] if t == mtype) >= count, vtimeout)

    async def wait_closed(self, vtimeout: float = 10.0) -> bool:
        return await self.wait_for(lambda s: s.closed, vtimeout)

    def close(self) -> None:
        if self.closed_local_at is None:
            self.closed_local_at = self.lab.clock.now
        try:
            self.sock.close()
        except OSError:
            pass
        self._task.cancel()
        self.lab.event('remote-close', session=self.id)

    def reset(self) -> None:
        """RST instead of FIN"""
        if self.closed_local_at is None:
            self.closed_local_at = self.lab.clock.now
        try:
            self.sock.setsockopt(socket.SOL_SOCKET, socket.SO_LINGER, struct.pack('ii', 1, 0))
            self.sock.close()
        except OSError:
            pass
        self._task.cancel()
        self.lab.event('remote-reset', session=self.id)


class Lab:
    def __init__(self, config_text: str, *, quantum: float = 0.0002, env: dict | None = None, bind_port: int | None = None, api: bool = False, tmpdir: str | None = None, loud: bool = False) -> None:
        self.loud = loud  # every log call evaluates its lazy message (debug logging with every source on), the text is dropped
        self.clock = VClock(quantum)
        self.events: list[dict] = []
        self.sessions: list[RemoteSession] = []
        self.seq = 0
        self.env = env or {}
        self.bind_port = bind_port
        self.tmp = tmpdir or tempfile.mkdtemp(prefix='exaverif-')
        self._own_tmp = tmpdir is None
        self.config_path = os.path.join(self.tmp, 'exabgp.conf')
        with open(self.config_path, 'w') as f:
            f.write(config_text)
        self.reactor = None
        self.loop: VLoop | None = None
        self.servers: dict[int, socket.socket] = {}
        self.accept_queues: dict[int, asyncio.Queue] = {}
        self.accept_policy: dict[int, str] = {}
        self.main_task = None
        self.exit_code = None
        self.taps_installed = False
        self.writes_started = 0
        self.writes_done = 0
        self.last_write_done = 0.0

    # ------------------------------------------------------------- events
    def event(self, kind: str, **kw) -> None:
        self.seq += 1
        kw.update(kind=kind, seq=self.seq, t=round(self.clock.now, 6))
        self.events.append(kw)

    # ------------------------------------------------------------- setup
    @staticmethod
    def free_port() -> int:
        s = socket.socket()
        s.bind(('127.0.0.1', 0))
        port = s.getsockname()[1]
        s.close()
        return port

    @staticmethod
    def reserve_listener(rcvbuf: int | None = None) -> socket.socket:
        """a listening socket on a port the kernel picks, kept open from then on (no pick-then-bind race with the other labs
        running on this machine)"""
        srv = socket.socket(socket.AF_INET, socket.SOCK_STREAM)
        srv.setsockopt(socket.SOL_SOCKET, socket.SO_REUSEADDR, 1)
        if rcvbuf:
            # a small receive window (inherited by accepted sockets): lets a remote which stops reading block ExaBGP's writer
            srv.setsockopt(socket.SOL_SOCKET, socket.SO_RCVBUF, rcvbuf)
        srv.bind(('127.0.0.1', 0))
        srv.listen(16)
        srv.setblocking(False)
        return srv

    def listen(self, port: int, policy: str = 'accept', rcvbuf: int | None = None, srv: socket.socket | None = None) -> None:
        """remote speaker listens where ExaBGP will connect (`connect <port>` in the neighbor)"""
        if srv is None:
            srv = socket.socket(socket.AF_INET, socket.SOCK_STREAM)
            srv.setsockopt(socket.SOL_SOCKET, socket.SO_REUSEADDR, 1)
            if rcvbuf:
                srv.setsockopt(socket.SOL_SOCKET, socket.SO_RCVBUF, rcvbuf)
            srv.bind(('127.0.0.1', port))
            srv.listen(16)
            srv.setblocking(False)
        self.servers[port] = srv
        self.accept_policy[port] = policy

    async def _acceptor(self, port: int) -> None:
        loop = asyncio.get_event_loop()
        srv = self.servers[port]
        q = self.accept_queues[port]
        try:
            while True:
                sock, _ = await loop.sock_accept(srv)
                sock.setblocking(False)
                pol = self.accept_policy.get(port, 'accept')
                if pol == 'reset':
                    sock.setsockopt(socket.SOL_SOCKET, socket.SO_LINGER, struct.pack('ii', 1, 0))
                    sock.close()
                    self.event('remote-refused', port=port)
                    continue
                if pol == 'close':
                    sock.close()
                    self.event('remote-refused', port=port)
                    continue
                sess = RemoteSession(self, sock, 'accepted')
                await q.put(sess)
        except (asyncio.CancelledError, OSError):
            pass

    async def accept(self, port: int, vtimeout: float = 30.0) -> RemoteSession | None:
        q = self.accept_queues[port]
        end = self.clock.now + vtimeout
        while self.clock.now < end:
            if not q.empty():
                return q.get_nowait()
            await asyncio.sleep(0.01)
        return q.get_nowait() if not q.empty() else None

    async def connect(self, port: int, local: str = '127.0.0.1') -> RemoteSession | None:
        """remote speaker opens a connection towards ExaBGP's listener"""
        loop = asyncio.get_event_loop()
        s = socket.socket(socket.AF_INET, socket.SOCK_STREAM)
        s.setblocking(False)
        try:
            s.bind((local, 0))
            await loop.sock_connect(s, ('127.0.0.1', port))
        except OSError:
            s.close()
            return None
        return RemoteSession(self, s, 'initiated')

    def install_taps(self) -> None:
        """wrap (from outside) the methods whose calls are events of the properties"""
        if self.taps_installed:
            return
        self.taps_installed = True
        lab = self
        from exabgp.bgp.fsm import FSM
        from exabgp.reactor.api.processes import Processes
        from exabgp.reactor.network.connection import Connection

        orig_change = FSM.change

        def change(fsm, state):
            lab.event('fsm', peer=fsm.peer.neighbor.name(), pid=id(fsm.peer), src=FSM.STATE(fsm.state).name, dst=FSM.STATE(state).name)
            return orig_change(fsm, state)

        FSM.change = change

        from exabgp.configuration.configuration import Configuration

        orig_reload = Configuration.reload

        def reload(cfg):
            try:
                ret = orig_reload(cfg)
            except BaseException as e:  # noqa
                lab.event('config-reload', ok=False, error=f'reload() raised {type(e).__name__}: {e}'[-300:], raised=type(e).__name__)
                raise
            lab.event('config-reload', ok=ret is True, error=str(cfg.error)[-300:])
            return ret

        Configuration.reload = reload

        for name in ('up', 'down', 'connected'):
            orig = getattr(Processes, name)

            def make(orig, name):
                def tap(self, neighbor, *a, **k):
                    lab.event('api-' + name, peer=neighbor.name())
                    return orig(self, neighbor, *a, **k)

                return tap

            setattr(Processes, name, make(orig, name))

        orig_writer = Connection.writer_async

        serial = [0]

        def cid(conn):
            # id() values are reused once a Connection is freed: number the objects instead
            if not hasattr(conn, '_verif_serial'):
                serial[0] += 1
                conn._verif_serial = serial[0]
            return conn._verif_serial

        async def writer_async(conn, data):
            lab.event('write', conn=cid(conn), direction=conn.direction, mtype=bytes(data)[18] if len(data) > 18 else -1, length=len(data), open=conn.io is not None)
            lab.writes_started += 1
            try:
                return await orig_writer(conn, data)
            finally:
                lab.writes_done += 1
                lab.last_write_done = lab.clock.now

        Connection.writer_async = writer_async

        orig_reader = Connection.reader_async

        async def reader_async(conn):
            out = await orig_reader(conn)
            try:
                length, msg_id = out[0], out[1]
                if length or out[4]:
                    lab.event('read', conn=cid(conn), mtype=int(msg_id), length=int(length), fault=bool(out[4]))
            except Exception:  # noqa
                pass
            return out

        Connection.reader_async = reader_async

        orig_close = Connection.close

        def close(conn):
            if conn.io is not None:
                lab.event('conn-close', conn=cid(conn), direction=conn.direction)
            return orig_close(conn)

        Connection.close = close
        self._restore = [(FSM, 'change', orig_change), (Connection, 'writer_async', orig_writer), (Connection, 'reader_async', orig_reader), (Connection, 'close', orig_close)]

    def build(self) -> None:
        """construct the real Reactor (not yet running)"""
        if self.loud:
            exa.loud()
        else:
            exa.quiet()
        from exabgp.environment import getenv

        env = getenv()
        env.tcp.bind = []
        env.tcp.attempts = 0
        env.daemon.daemonize = False
        env.daemon.drop = False
        env.api.cli = False
        env.api.respawn = False
        env.api.terminate = False
        env.log.enable = False
        env.bgp.openwait = 60
        env.bgp.passive = False
        if self.bind_port:
            from exabgp.protocol.ip import IP

            env.tcp.bind = [IP.from_string('127.0.0.1')]
            env.tcp.port = self.bind_port
        for k, v in self.env.items():
            section, name = k.split('.')
            setattr(getattr(env, section), name, v)

        # clock substitution
        _time.time = self.clock.time
        self.loop = VLoop(self.clock)
        asyncio.set_event_loop(self.loop)

        import exabgp.reactor.api.processes as P

        P.subprocess = types.SimpleNamespace(
            Popen=FakePopen,
            PIPE=-1,
            TimeoutExpired=__import__('subprocess').TimeoutExpired,
            CalledProcessError=__import__('subprocess').CalledProcessError,
        )
        FakePopen.registry = {}

        from exabgp.configuration.configuration import Configuration
        from exabgp.reactor.loop import Reactor

        cwd = os.getcwd()
        umask = os.umask(0o022)
        os.umask(umask)
        saved = {s: signal.getsignal(s) for s in (signal.SIGTERM, signal.SIGHUP, signal.SIGALRM, signal.SIGUSR1, signal.SIGUSR2)}
        configuration = Configuration([self.config_path])
        self.reactor = Reactor(configuration)
        for s in saved:
            signal.signal(s, signal.SIG_DFL)
        os.chdir(cwd)
        os.umask(umask)
        # Daemon side effects we do not want from a harness
        self.reactor.daemon.daemonise = lambda: None
        self.reactor.daemon.savepid = lambda: True
        self.reactor.daemon.removepid = lambda: None
        self.reactor.daemon.drop_privileges = lambda: True
        self.install_taps()

    async def _main(self) -> None:
        try:
            self.exit_code = await self.reactor.run_async()
            self.event('reactor-exit', code=self.exit_code)
        except asyncio.CancelledError:
            raise
        except BaseException as e:  # noqa
            self.event('reactor-crash', error=type(e).__name__ + ': ' + str(e)[:200])

    def run(self, scenario, vtimeout: float = 120.0, wall_timeout: float = 60.0):
        """run `await scenario(lab)` next to the real reactor; returns its result or raises LabTimeout"""
        if self.reactor is None:
            self.build()
        loop = self.loop
        for port in self.servers:
            self.accept_queues[port] = asyncio.Queue()

        async def outer():
            acceptors = [asyncio.ensure_future(self._acceptor(p)) for p in self.servers]
            self.main_task = asyncio.ensure_future(self._main())
            wall0 = _real_time()

            async def watchdog():
                while True:
                    await asyncio.sleep(0.5)
                    if self.clock.now > vtimeout:
                        raise LabTimeout(f'virtual {self.clock.now:.1f}s')
                    if _real_time() - wall0 > wall_timeout:
                        raise LabTimeout(f'wall {wall_timeout}s (virtual {self.clock.now:.1f}s)')

            wd = asyncio.ensure_future(watchdog())
            sc = asyncio.ensure_future(scenario(self))
            done, pending = await asyncio.wait([wd, sc], return_when=asyncio.FIRST_COMPLETED)
            for t in acceptors + [wd]:
                t.cancel()
            if sc in done:
                return sc.result()
            sc.cancel()
            raise wd.exception() or LabTimeout('watchdog')

        try:
            return loop.run_until_complete(outer())
        finally:
            self.teardown()

    async def shutdown_reactor(self, vtimeout: float = 5.0) -> None:
        from exabgp.reactor.interrupt import Signal

        self.reactor.signal.received = Signal.SHUTDOWN
        end = self.clock.now + vtimeout
        while self.clock.now < end and not self.main_task.done():
            await asyncio.sleep(0.01)

    def teardown(self) -> None:
        try:
            if self.main_task and not self.main_task.done():
                self.main_task.cancel()
                try:
                    self.loop.run_until_complete(asyncio.wait([self.main_task], timeout=1))
                except Exception:
                    pass
            for t in asyncio.all_tasks(self.loop):
                t.cancel()
            try:
                self.loop.run_until_complete(asyncio.sleep(0))
            except Exception:
                pass
        finally:
            for s in self.sessions:
                try:
                    s.sock.close()
                except OSError:
                    pass
            for srv in self.servers.values():
                srv.close()
            _time.time = _real_time
            if self._own_tmp:
                import shutil

                shutil.rmtree(self.tmp, ignore_errors=True)

    # ------------------------------------------------------------- API helper
    def helper(self, name_contains: str = '') -> FakePopen | None:
        for name, p in FakePopen.registry.items():
            if name_contains in name:
                return p
        return None

    def peers(self):
        return list(self.reactor._peers.values())


class LabTimeout(Exception):
    pass


def run_forked(fn, arg, wall_timeout: float = 90.0):
    """run fn(arg) in a forked child (fresh asyncio/ExaBGP state per case); -> ('ok', result) | ('timeout', None) | ('crash', text)"""
    r, w = os.pipe()
    pid = os.fork()
    if pid == 0:
        os.close(r)
        try:
            out = ('ok', fn(arg))
        except BaseException as e:  # noqa
            import traceback

            out = ('crash', type(e).__name__ + ': ' + str(e) + '\n' + traceback.format_exc()[-1500:])
        try:
            from vlib.mon import jdefault

            data = json.dumps(out, default=jdefault).encode()
            with os.fdopen(w, 'wb') as f:
                f.write(data)
        finally:
            os._exit(0)
    os.close(w)
    import select

    chunks = []
    deadline = _real_time() + wall_timeout
    status = 'ok'
    with os.fdopen(r, 'rb') as f:
        os.set_blocking(f.fileno(), False)
        while True:
            left = deadline - _real_time()
            if left <= 0:
                status = 'timeout'
                break
            rd, _, _ = select.select([f], [], [], min(left, 1.0))
            if rd:
                chunk = f.read()
                if chunk is None:
                    continue
                if not chunk:
                    break
                chunks.append(chunk)
    if status == 'timeout':
        try:
            os.kill(pid, signal.SIGKILL)
        except ProcessLookupError:
            pass
    os.waitpid(pid, 0)
    if status == 'timeout':
        return ('timeout', None)
    try:
        kind, val = json.loads(b''.join(chunks))
        return (kind, val)
    except Exception as e:  # noqa
        return ('crash', f'no result from child: {e}')


def peer_open(asn: int, hold: int = 90, rid: str = '10.0.0.2', families=((1, 1),), asn4: bool = True, extra_caps=(), refresh: bool = True, extmsg: bool = False) -> bytes:
    caps = [rw.cap_mp(a, s) for a, s in families]
    if asn4:
        caps.append(rw.cap_asn4(asn))
    if refresh:
        caps.append((rw.CAP_REFRESH, b''))
        caps.append((rw.CAP_ENHANCED, b''))
    if extmsg:
        caps.append((rw.CAP_EXTMSG, b''))
    caps += list(extra_caps)
    return rw.enc_open(asn if asn < 65536 else rw.AS_TRANS, hold, rid, caps)


async def establish(sess: RemoteSession, open_bytes: bytes, vtimeout: float = 10.0) -> bool:
    """play the remote side of the OPEN/KEEPALIVE exchange on a connected session"""
    if not await sess.wait_message(rw.OPEN, vtimeout):
        return False
    await sess.send(open_bytes)
    await sess.send(rw.keepalive())
    return await sess.wait_message(rw.KEEPALIVE, vtimeout)
