"""gen_wire - seeded generators of well-formed messages (built with the refwire encoder from a semantic
description, which is returned as the *intent*) and a structure-aware mutator.
"""

from __future__ import annotations

import random
import struct

from vlib import refwire as rw

V4_POOL = ['10.0.0.0/8', '10.1.0.0/16', '192.0.2.0/24', '198.51.100.128/25', '203.0.113.77/32', '0.0.0.0/0', '172.16.0.0/12', '100.64.1.0/30']
V6_POOL = ['2001:db8::/32', '2001:db8:1::/48', '2001:db8::1/128', '::/0', 'fc00::/7', '2001:db8:aaaa:bbbb::/64', '2a00::/33']


def rand_prefix(r: random.Random, afi: int) -> str:
    if r.random() < 0.5:
        return r.choice(V4_POOL if afi == 1 else V6_POOL)
    bits = 32 if afi == 1 else 128
    ml = r.choice([0, 1, 7, 8, 9, 16, 23, 24, 25, 31, 32] if afi == 1 else [0, 1, 16, 32, 33, 48, 63, 64, 65, 127, 128])
    raw = bytearray(r.getrandbits(8) for _ in range(bits // 8))
    # zero the host bits
    for i in range(bits):
        if i >= ml:
            raw[i // 8] &= ~(0x80 >> (i % 8)) & 0xFF
    return f'{rw.ipstr(bytes(raw))}/{ml}'


def rand_rd(r: random.Random) -> str:
    t = r.choice([0, 1, 2])
    if t == 0:
        return (struct.pack('!HHL', 0, r.choice([1, 65000, 65535]), r.choice([0, 1, 2**32 - 1]))).hex()
    if t == 1:
        return (struct.pack('!H', 1) + bytes([192, 0, 2, r.randrange(256)]) + struct.pack('!H', r.choice([0, 7, 65535]))).hex()
    return (struct.pack('!HLH', 2, r.choice([65536, 4200000000]), r.choice([0, 9, 65535]))).hex()


def rand_nlri(r: random.Random, afi: int, safi: int, addpath: bool) -> dict:
    labels = ()
    rd = None
    if safi in (rw.SAFI_LABEL, rw.SAFI_VPN):
        labels = tuple(r.choice([16, 17, 100, 1000, 2**20 - 1]) for _ in range(r.choice([1, 1, 1, 2, 3])))
    if safi == rw.SAFI_VPN:
        rd = rand_rd(r)
    pid = r.choice([0, 1, 7, 2**32 - 1]) if addpath else None
    prefix = rand_prefix(r, afi)
    # the NLRI length octet counts labels + RD + prefix bits: keep it representable
    while len(labels) > 1 and int(prefix.split('/')[1]) + 24 * len(labels) + (64 if rd else 0) > 255:
        labels = labels[:-1]
    return rw.mk_nlri(afi, safi, prefix, pid, labels, rd)


ASN2 = [1, 100, 64512, 65000, 65535]
ASN4 = [65536, 70000, 4200000000, 4294967295]


def rand_aspath(r: random.Random, asn4: bool, allow4: bool = True):
    pool = ASN2 + (ASN4 if allow4 else [])
    segs = []
    for _ in range(r.choice([0, 1, 1, 1, 2, 3])):
        stype = r.choice([2, 2, 2, 1])
        n = r.choice([1, 2, 3, 5, 20])
        segs.append((stype, [r.choice(pool) for _ in range(n)]))
    return segs


def rand_attrs(r: random.Random, asn4: bool, ibgp: bool, want_nexthop: bool = True, rich: float = 0.5) -> dict:
    """semantic attribute description -> {'origin':..., 'as_path': [...], ...}"""
    a: dict = {'origin': r.choice([0, 1, 2]), 'as_path': rand_aspath(r, asn4)}
    if not asn4 and a['as_path'] and r.random() < 0.35:
        # OLD speakers on the way prepended their own (2-byte) ASNs, possibly aggregating into a set
        a['as_path_new'] = a['as_path']
        lead = [(2, [r.choice(ASN2) for _ in range(r.choice([1, 2, 4]))])]
        if r.random() < 0.3:
            lead.insert(r.choice([0, 1]), (1, [r.choice(ASN2) for _ in range(r.choice([1, 3]))]))
        a['as_path'] = lead + a['as_path']
    if want_nexthop:
        a['next_hop'] = r.choice(['192.0.2.1', '10.0.0.254', '203.0.113.9'])
    if r.random() < rich:
        a['med'] = r.choice([0, 1, 100, 2**32 - 1])
    if ibgp or r.random() < 0.3:
        a['local_pref'] = r.choice([0, 100, 200, 2**32 - 1])
    if r.random() < rich * 0.3:
        a['atomic'] = True
    if r.random() < rich * 0.3:
        a['aggregator'] = (r.choice(ASN2 + ASN4), '192.0.2.200')  # a 4-byte AS goes to a 2-byte session as AS_TRANS + AS4_AGGREGATOR
    if r.random() < rich:
        a['communities'] = [(r.choice([0, 1, 65000, 65535]), r.choice([0, 1, 666, 65535])) for _ in range(r.choice([1, 2, 5, 40]))]
    if r.random() < rich * 0.5:
        a['ext_communities'] = [(bytes([0x00, 0x02]) + struct.pack('!HL', r.choice(ASN2), r.randrange(2**32))).hex() for _ in range(r.choice([1, 2, 6]))]
    if r.random() < rich * 0.5:
        a['large_communities'] = [(r.choice(ASN2 + ASN4), r.randrange(2**32), r.choice([0, 2**32 - 1])) for _ in range(r.choice([1, 3]))]
    if r.random() < rich * 0.3:
        a['originator'] = '10.9.9.9'
        a['cluster_list'] = ['10.8.8.8'] * r.choice([1, 2, 5])
    if r.random() < rich * 0.2:
        a['aigp'] = r.choice([0, 10, 2**64 - 1])
    if r.random() < rich * 0.3:
        # unknown attributes: (code, flags, value)
        a['unknown'] = [(r.choice([99, 150, 200, 254]), r.choice([0xC0, 0xC0, 0x80, 0xE0]), bytes(r.getrandbits(8) for _ in range(r.choice([0, 1, 7, 40]))))]
    return a


def enc_attrs(a: dict, asn4: bool, r: random.Random | None = None, shuffle: bool = False, force_ext: bool = False, with_as4: bool = True) -> list[bytes]:
    """-> list of encoded attribute TLVs (ordered by code unless shuffled)"""
    out = []
    fe = force_ext
    if 'origin' in a:
        out.append((1, rw.enc_attr(0x40, 1, bytes([a['origin']]), fe)))
    if 'as_path' in a:
        segs = a['as_path']
        if asn4:
            out.append((2, rw.enc_attr(0x40, 2, rw.v_aspath(segs, True), fe)))
        else:
            # 'as_path_new' = the part of the path that went through NEW (4-byte) speakers and is mirrored in AS4_PATH;
            # what precedes it in 'as_path' was prepended by OLD speakers (2-byte ASNs only, RFC 6793 4.2.2)
            new_part = a.get('as_path_new', segs)
            two = [(t, [x if x < 65536 else rw.AS_TRANS for x in asns]) for t, asns in segs]
            out.append((2, rw.enc_attr(0x40, 2, rw.v_aspath(two, False), fe)))
            if with_as4 and (any(x > 65535 for _, asns in new_part for x in asns) or 'as_path_new' in a):
                out.append((17, rw.enc_attr(0xC0, 17, rw.v_aspath([sg for sg in new_part if sg[0] in (1, 2)], True), fe)))
    if 'next_hop' in a:
        out.append((3, rw.enc_attr(0x40, 3, rw.ipbytes(a['next_hop']), fe)))
    if 'med' in a:
        out.append((4, rw.enc_attr(0x80, 4, struct.pack('!L', a['med']), fe)))
    if 'local_pref' in a:
        out.append((5, rw.enc_attr(0x40, 5, struct.pack('!L', a['local_pref']), fe)))
    if a.get('atomic'):
        out.append((6, rw.enc_attr(0x40, 6, b'', fe)))
    if 'aggregator' in a:
        asn, ip = a['aggregator']
        if asn4:
            out.append((7, rw.enc_attr(0xC0, 7, struct.pack('!L', asn) + rw.ipbytes(ip), fe)))
        else:
            out.append((7, rw.enc_attr(0xC0, 7, struct.pack('!H', asn if asn < 65536 else rw.AS_TRANS) + rw.ipbytes(ip), fe)))
            if asn > 65535:
                out.append((18, rw.enc_attr(0xC0, 18, struct.pack('!L', asn) + rw.ipbytes(ip), fe)))
    if 'communities' in a:
        out.append((8, rw.enc_attr(0xC0, 8, b''.join(struct.pack('!HH', x, y) for x, y in a['communities']), fe)))
    if 'originator' in a:
        out.append((9, rw.enc_attr(0x80, 9, rw.ipbytes(a['originator']), fe)))
    if 'cluster_list' in a:
        out.append((10, rw.enc_attr(0x80, 10, b''.join(rw.ipbytes(x) for x in a['cluster_list']), fe)))
    if 'ext_communities' in a:
        out.append((16, rw.enc_attr(0xC0, 16, b''.join(bytes.fromhex(x) for x in a['ext_communities']), fe)))
    if 'aigp' in a:
        out.append((26, rw.enc_attr(0x80, 26, bytes([1]) + struct.pack('!HQ', 11, a['aigp']), fe)))
    if 'large_communities' in a:
        out.append((32, rw.enc_attr(0xC0, 32, b''.join(struct.pack('!LLL', *x) for x in a['large_communities']), fe)))
    for code, flags, val in a.get('unknown', []):
        out.append((code, rw.enc_attr(flags, code, val, fe)))
    if shuffle and r is not None:
        r.shuffle(out)
    else:
        out.sort(key=lambda x: x[0])
    return [b for _, b in out]


def gen_update(r: random.Random, s: dict, families=((1, 1), (2, 1)), rich: float = 0.5) -> tuple[bytes, dict]:
    """-> (UPDATE body, intent). s = session {'asn4', 'addpath' (set of fams with path ids on THIS direction), 'ibgp'}"""
    asn4 = s['asn4']
    ap = s.get('addpath', set())
    intent: dict = {'announce': [], 'withdraw': [], 'attrs': None, 'eor': None}
    kind = r.choice(['v4', 'v4', 'mp', 'mp', 'v4+mp', 'withdraw-v4', 'withdraw-mp', 'mixed', 'eor-v4', 'eor-mp'])
    mpfams = [f for f in families if f != (1, 1)]
    if not mpfams and 'mp' in kind:
        kind = 'v4'
    if (1, 1) not in families and kind in ('v4', 'v4+mp', 'withdraw-v4', 'mixed', 'eor-v4'):
        kind = 'mp'
    if kind == 'eor-v4':
        intent['eor'] = (1, 1)
        return b'\0\0\0\0', intent
    if kind == 'eor-mp':
        f = r.choice(mpfams)
        intent['eor'] = f
        return rw.enc_update_body(b'', rw.enc_attr(0x80, 15, struct.pack('!HB', *f)), b''), intent
    shuffle = r.random() < 0.4
    fe = r.random() < 0.15
    withdrawn = b''
    nlri = b''
    tlvs: list[bytes] = []
    attrs = None
    if kind in ('v4', 'mp', 'v4+mp', 'mixed'):
        attrs = rand_attrs(r, asn4, s.get('ibgp', False), want_nexthop=kind in ('v4', 'v4+mp', 'mixed'), rich=rich)
        tlvs = enc_attrs(attrs, asn4, r, shuffle, fe)
        intent['attrs'] = attrs
    if kind in ('v4', 'v4+mp', 'mixed'):
        ns = [rand_nlri(r, 1, 1, (1, 1) in ap) for _ in range(r.choice([1, 1, 2, 5, 30]))]
        nlri = b''.join(rw.enc_nlri(n, (1, 1) in ap) for n in ns)
        intent['announce'] += [(n, [attrs['next_hop']]) for n in ns]
    if kind in ('mp', 'v4+mp'):
        f = r.choice(mpfams)
        ns = [rand_nlri(r, f[0], f[1], f in ap) for _ in range(r.choice([1, 1, 2, 6]))]
        if f[0] == 2:
            hops = r.choice([['2001:db8::ff'], ['2001:db8::ff', 'fe80::1']])
        else:
            hops = [r.choice(['192.0.2.1', '10.0.0.254'])]
        if f[1] == rw.SAFI_VPN and len(hops) > 1:
            hops = hops[:1]
        mp = rw.enc_mp_reach(f[0], f[1], hops, ns, f in ap, fe)
        pos = r.randrange(len(tlvs) + 1) if shuffle else len(tlvs)
        tlvs.insert(pos, mp)
        intent['announce'] += [(n, hops) for n in ns]
    if kind in ('withdraw-v4', 'mixed'):
        ns = [rand_nlri(r, 1, 1, (1, 1) in ap) for _ in range(r.choice([1, 2, 9]))]
        withdrawn = b''.join(rw.enc_nlri(n, (1, 1) in ap) for n in ns)
        intent['withdraw'] += ns
    if kind in ('withdraw-mp', 'mixed') and mpfams:
        f = r.choice(mpfams)
        ns = [rand_nlri(r, f[0], f[1], f in ap) for _ in range(r.choice([1, 2, 7]))]
        for n in ns:
            if n['labels']:
                n['labels'] = (0x80000,)  # RFC 8277 withdraw label 0x800000 >> 4
        tlvs.insert(0 if not shuffle else r.randrange(len(tlvs) + 1), rw.enc_mp_unreach(f[0], f[1], ns, f in ap, fe))
        intent['withdraw'] += ns
    body = rw.enc_update_body(withdrawn, b''.join(tlvs), nlri)
    intent['kind'] = kind
    return body, intent


# ------------------------------------------------------------------ mutation


def mutate(r: random.Random, data: bytes, n: int = 1) -> bytes:
    b = bytearray(data)
    for _ in range(n):
        if not b:
            b = bytearray(r.getrandbits(8) for _ in range(r.randrange(1, 8)))
            continue
        op = r.randrange(10)
        i = r.randrange(len(b))
        if op == 0:
            b[i] ^= 1 << r.randrange(8)
        elif op == 1:
            b[i] = r.choice([0, 1, 0x7F, 0x80, 0xFF, b[i] + 1 & 0xFF, b[i] - 1 & 0xFF])
        elif op == 2:
            del b[i : i + r.randrange(1, 9)]
        elif op == 3:
            b[i:i] = bytes(r.getrandbits(8) for _ in range(r.randrange(1, 9)))
        elif op == 4:
            b = b[:i]
        elif op == 5:
            j = r.randrange(len(b))
            lo, hi = min(i, j), max(i, j)
            b[hi:hi] = b[lo:hi][:64]  # duplicate a slice
        elif op == 6 and len(b) > 2:
            # 16 bit length style edit
            v = struct.unpack('!H', bytes(b[i : i + 2]).ljust(2, b'\0'))[0]
            v = r.choice([0, 1, v + 1 & 0xFFFF, v - 1 & 0xFFFF, 0xFFFF, len(b)])
            b[i : i + 2] = struct.pack('!H', v)
        elif op == 7:
            b += bytes(r.getrandbits(8) for _ in range(r.randrange(1, 20)))
        elif op == 8:
            b[i:i] = b[i : i + r.randrange(1, 30)] * r.randrange(2, 6)
        else:
            j = r.randrange(len(b))
            b[i], b[j] = b[j], b[i]
    return bytes(b)
