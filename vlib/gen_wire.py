"""gen_wire - seeded generators of well-formed messages (built with the refwire encoder from a semantic
description, which is returned as the *intent*) and a structure-aware mutator.
"""

from __future__ import annotations

import random
import struct

from vlib import refwire as rw

V4_POOL = ['10.0.0.0/8', '10.1.0.0/16', '192.0.2.0/24', '198.51.100.128/25', '203.0.113.77/32', '0.0.0.0/0', '172.16.0.0/12', '100.64.1.0/30']
V6_POOL = ['2001:db8::/32', '2001:db8:1::/48', '2001:db8::1/128', '::/0', 'fc00::/7', '2001:db8:aaaa:bbbb::/64', '2a00::/33']


def rand_prefix(r: random.Random, afi: int) -> str:
    if r.random() < 0.5:
        return r.choice(V4_POOL if afi == 1 else V6_POOL)
    bits = 32 if afi == 1 else 128
    ml = r.choice([0, 1, 7, 8, 9, 16, 23, 24, 25, 31, 32] if afi == 1 else [0, 1, 16, 32, 33, 48, 63, 64, 65, 127, 128])
    raw = bytearray(r.getrandbits(8) for _ in range(bits // 8))
    # zero the host bits
    for i in range(bits):
        if i >= ml:
            raw[i // 8] &= ~(0x80 >> (i % 8)) & 0xFF
    return f'{rw.ipstr(bytes(raw))}/{ml}'


def rand_rd(r: random.Random) -> str:
    t = r.choice([0, 1, 2])
    if t == 0:
        return (struct.pack('!HHL', 0, r.choice([1, 65000, 65535]), r.choice([0, 1, 2**32 - 1]))).hex()
    if t == 1:
        return (struct.pack('!H', 1) + bytes([192, 0, 2, r.randrange(256)]) + struct.pack('!H', r.choice([0, 7, 65535]))).hex()
    return (struct.pack('!HLH', 2, r.choice([65536, 4200000000]), r.choice([0, 9, 65535]))).hex()


def rand_nlri(r: random.Random, afi: int, safi: int, addpath: bool) -> dict:
    labels = ()
    rd = None
    if safi in (rw.SAFI_LABEL, rw.SAFI_VPN):
        labels = tuple(r.choice([16, 17, 100, 1000, 2**20 - 1]) for _ in range(r.choice([1, 1, 1, 2, 3])))
    if safi == rw.SAFI_VPN:
        rd = rand_rd(r)
    pid = r.choice([0, 1, 7, 2**32 - 1]) if addpath else None
    prefix = rand_prefix(r, afi)
    # the NLRI length octet counts labels + RD + prefix bits: keep it representable
    while len(labels) > 1 and int(prefix.split('/')[1]) + 24 * len(labels) + (64 if rd else 0) > 255:
        labels = labels[:-1]
    return rw.mk_nlri(afi, safi, prefix, pid, labels, rd)


ASN2 = [1, 100, 64512, 65000, 65535]
ASN4 = [65536, 70000, 4200000000, 4294967295]


def rand_aspath(r: random.Random, asn4: bool, allow4: bool = True):
    pool = ASN2 + (ASN4 if allow4 else [])
    segs = []
    for _ in range(r.choice([0, 1, 1, 1, 2, 3])):
        stype = r.choice([2, 2, 2, 1])
        n = r.choice([1, 2, 3, 5, 20])
        segs.append((stype, [r.choice(pool) for _ in range(n)]))
    return segs


def rand_confed(r: random.Random, pool) -> list:
    """RFC 5065 confederation segments, which lead the path (AS_CONFED_SEQUENCE 3, AS_CONFED_SET 4); RFC 6793 counts them
    for nothing when AS_PATH and AS4_PATH are merged"""
    out = [(3, [r.choice(pool) for _ in range(r.choice([1, 2, 4]))])]
    if r.random() < 0.3:
        out.append((4, [r.choice(pool) for _ in range(r.choice([1, 3]))]))
    return out


def rand_attrs(r: random.Random, asn4: bool, ibgp: bool, want_nexthop: bool = True, rich: float = 0.5) -> dict:
    """semantic attribute description -> {'origin':..., 'as_path': [...], ...}"""
    a: dict = {'origin': r.choice([0, 1, 2]), 'as_path': rand_aspath(r, asn4)}
    if not asn4 and a['as_path'] and r.random() < 0.35:
        # OLD speakers on the way prepended their own (2-byte) ASNs, possibly aggregating into a set
        a['as_path_new'] = a['as_path']
        lead = [(2, [r.choice(ASN2) for _ in range(r.choice([1, 2, 4]))])]
        if r.random() < 0.3:
            lead.insert(r.choice([0, 1]), (1, [r.choice(ASN2) for _ in range(r.choice([1, 3]))]))
        if r.random() < 0.3:
            lead = rand_confed(r, ASN2) + lead  # the OLD speakers sit inside a confederation
        a['as_path'] = lead + a['as_path']
    elif r.random() < 0.12 and (asn4 or not any(x > 65535 for _, asns in a['as_path'] for x in asns)):
        # (with an AS4_PATH of the same hop count RFC 6793 4.2.3 takes nothing from the front of AS_PATH and says nothing
        # about confederation segments standing there: that combination has no single right answer and is not generated)
        a['as_path'] = rand_confed(r, ASN2 + (ASN4 if asn4 else [])) + a['as_path']
    if want_nexthop:
        a['next_hop'] = r.choice(['192.0.2.1', '10.0.0.254', '203.0.113.9'])
    if r.random() < rich:
        a['med'] = r.choice([0, 1, 100, 2**32 - 1])
    if ibgp or r.random() < 0.3:
        a['local_pref'] = r.choice([0, 100, 200, 2**32 - 1])
    if r.random() < rich * 0.3:
        a['atomic'] = True
    if r.random() < rich * 0.3:
        a['aggregator'] = (r.choice(ASN2 + ASN4), '192.0.2.200')  # a 4-byte AS goes to a 2-byte session as AS_TRANS + AS4_AGGREGATOR
    if r.random() < rich:
        a['communities'] = [(r.choice([0, 1, 65000, 65535]), r.choice([0, 1, 666, 65535])) for _ in range(r.choice([1, 2, 5, 40]))]
    if r.random() < rich * 0.5:
        a['ext_communities'] = [(bytes([0x00, 0x02]) + struct.pack('!HL', r.choice(ASN2), r.randrange(2**32))).hex() for _ in range(r.choice([1, 2, 6]))]
    if r.random() < rich * 0.5:
        a['large_communities'] = [(r.choice(ASN2 + ASN4), r.randrange(2**32), r.choice([0, 2**32 - 1])) for _ in range(r.choice([1, 3]))]
    if r.random() < rich * 0.3:
        a['originator'] = '10.9.9.9'
        a['cluster_list'] = ['10.8.8.8'] * r.choice([1, 2, 5])
    if r.random() < rich * 0.2:
        a['aigp'] = r.choice([0, 10, 2**64 - 1])
    if r.random() < rich * 0.3:
        # unknown attributes: (code, flags, value)
        a['unknown'] = [(r.choice([99, 150, 200, 254]), r.choice([0xC0, 0xC0, 0x80, 0xE0]), bytes(r.getrandbits(8) for _ in range(r.choice([0, 1, 7, 40]))))]
    return a


def enc_attrs(a: dict, asn4: bool, r: random.Random | None = None, shuffle: bool = False, force_ext: bool = False, with_as4: bool = True) -> list[bytes]:
    """-> list of encoded attribute TLVs (ordered by code unless shuffled)"""
    out = []
    fe = force_ext
    if 'origin' in a:
        out.append((1, rw.enc_attr(0x40, 1, bytes([a['origin']]), fe)))
    if 'as_path' in a:
        segs = a['as_path']
        if asn4:
            out.append((2, rw.enc_attr(0x40, 2, rw.v_aspath(segs, True), fe)))
        else:
            # 'as_path_new' = the part of the path that went through NEW (4-byte) speakers and is mirrored in AS4_PATH;
            # what precedes it in 'as_path' was prepended by OLD speakers (2-byte ASNs only, RFC 6793 4.2.2)
            new_part = a.get('as_path_new', segs)
            two = [(t, [x if x < 65536 else rw.AS_TRANS for x in asns]) for t, asns in segs]
            out.append((2, rw.enc_attr(0x40, 2, rw.v_aspath(two, False), fe)))
            if with_as4 and (any(x > 65535 for _, asns in new_part for x in asns) or 'as_path_new' in a):
                out.append((17, rw.enc_attr(0xC0, 17, rw.v_aspath([sg for sg in new_part if sg[0] in (1, 2)], True), fe)))
    if 'next_hop' in a:
        out.append((3, rw.enc_attr(0x40, 3, rw.ipbytes(a['next_hop']), fe)))
    if 'med' in a:
        out.append((4, rw.enc_attr(0x80, 4, struct.pack('!L', a['med']), fe)))
    if 'local_pref' in a:
        out.append((5, rw.enc_attr(0x40, 5, struct.pack('!L', a['local_pref']), fe)))
    if a.get('atomic'):
        out.append((6, rw.enc_attr(0x40, 6, b'', fe)))
    if 'aggregator' in a:
        asn, ip = a['aggregator']
        if asn4:
            out.append((7, rw.enc_attr(0xC0, 7, struct.pack('!L', asn) + rw.ipbytes(ip), fe)))
        else:
            out.append((7, rw.enc_attr(0xC0, 7, struct.pack('!H', asn if asn < 65536 else rw.AS_TRANS) + rw.ipbytes(ip), fe)))
            if asn > 65535:
                out.append((18, rw.enc_attr(0xC0, 18, struct.pack('!L', asn) + rw.ipbytes(ip), fe)))
    if 'communities' in a:
        out.append((8, rw.enc_attr(0xC0, 8, b''.join(struct.pack('!HH', x, y) for x, y in a['communities']), fe)))
    if 'originator' in a:
        out.append((9, rw.enc_attr(0x80, 9, rw.ipbytes(a['originator']), fe)))
    if 'cluster_list' in a:
        out.append((10, rw.enc_attr(0x80, 10, b''.join(rw.ipbytes(x) for x in a['cluster_list']), fe)))
    if 'ext_communities' in a:
        out.append((16, rw.enc_attr(0xC0, 16, b''.join(bytes.fromhex(x) for x in a['ext_communities']), fe)))
    if 'aigp' in a:
        out.append((26, rw.enc_attr(0x80, 26, bytes([1]) + struct.pack('!HQ', 11, a['aigp']), fe)))
    if 'large_communities' in a:
        out.append((32, rw.enc_attr(0xC0, 32, b''.join(struct.pack('!LLL', *x) for x in a['large_communities']), fe)))
    for code, flags, val in a.get('unknown', []):
        out.append((code, rw.enc_attr(flags, code, val, fe)))
    if shuffle and r is not None:
        r.shuffle(out)
    else:
        out.sort(key=lambda x: x[0])
    return [b for _, b in out]


def gen_update(r: random.Random, s: dict, families=((1, 1), (2, 1)), rich: float = 0.5) -> tuple[bytes, dict]:
    """-> (UPDATE body, intent). s = session {'asn4', 'addpath' (set of fams with path ids on THIS direction), 'ibgp'}"""
    asn4 = s['asn4']
    ap = s.get('addpath', set())
    intent: dict = {'announce': [], 'withdraw': [], 'attrs': None, 'eor': None}
    kind = r.choice(['v4', 'v4', 'mp', 'mp', 'v4+mp', 'withdraw-v4', 'withdraw-mp', 'mixed', 'eor-v4', 'eor-mp'])
    mpfams = [f for f in families if f != (1, 1)]
    if not mpfams and 'mp' in kind:
        kind = 'v4'
    if (1, 1) not in families and kind in ('v4', 'v4+mp', 'withdraw-v4', 'mixed', 'eor-v4'):
        kind = 'mp'
    if kind == 'eor-v4':
        intent['eor'] = (1, 1)
        return b'\0\0\0\0', intent
    if kind == 'eor-mp':
        f = r.choice(mpfams)
        intent['eor'] = f
        return rw.enc_update_body(b'', rw.enc_attr(0x80, 15, struct.pack('!HB', *f)), b''), intent
    shuffle = r.random() < 0.4
    fe = r.random() < 0.15
    withdrawn = b''
    nlri = b''
    tlvs: list[bytes] = []
    attrs = None
    if kind in ('v4', 'mp', 'v4+mp', 'mixed'):
        attrs = rand_attrs(r, asn4, s.get('ibgp', False), want_nexthop=kind in ('v4', 'v4+mp', 'mixed'), rich=rich)
        tlvs = enc_attrs(attrs, asn4, r, shuffle, fe)
        intent['attrs'] = attrs
    if kind in ('v4', 'v4+mp', 'mixed'):
        ns = [rand_nlri(r, 1, 1, (1, 1) in ap) for _ in range(r.choice([1, 1, 2, 5, 30]))]
        nlri = b''.join(rw.enc_nlri(n, (1, 1) in ap) for n in ns)
        intent['announce'] += [(n, [attrs['next_hop']]) for n in ns]
    if kind in ('mp', 'v4+mp'):
        f = r.choice(mpfams)
        enh = s.get('enh') and r.random() < 0.4
        if enh and kind == 'mp' and (1, 1) in families and r.random() < 0.4:
            f = (1, 1)  # RFC 8950: IPv4 unicast in MP_REACH_NLRI with an IPv6 next hop
        ns = [rand_nlri(r, f[0], f[1], f in ap) for _ in range(r.choice([1, 1, 2, 6]))]
        if f[0] == 2:
            hops = r.choice([['2001:db8::ff'], ['2001:db8::ff', 'fe80::1']])
        elif enh:
            hops = ['2001:db8::ff']  # extended next hop negotiated for the IPv4 families
            intent['enh'] = True
        else:
            hops = [r.choice(['192.0.2.1', '10.0.0.254'])]
        if f[1] == rw.SAFI_VPN and len(hops) > 1:
            hops = hops[:1]
        mp = rw.enc_mp_reach(f[0], f[1], hops, ns, f in ap, fe)
        pos = r.randrange(len(tlvs) + 1) if shuffle else len(tlvs)
        tlvs.insert(pos, mp)
        intent['announce'] += [(n, hops) for n in ns]
    if kind in ('withdraw-v4', 'mixed'):
        ns = [rand_nlri(r, 1, 1, (1, 1) in ap) for _ in range(r.choice([1, 2, 9]))]
        withdrawn = b''.join(rw.enc_nlri(n, (1, 1) in ap) for n in ns)
        intent['withdraw'] += ns
    if kind in ('withdraw-mp', 'mixed') and mpfams:
        f = r.choice(mpfams)
        ns = [rand_nlri(r, f[0], f[1], f in ap) for _ in range(r.choice([1, 2, 7]))]
        for n in ns:
            if n['labels']:
                n['labels'] = (0x80000,)  # RFC 8277 withdraw label 0x800000 >> 4
        tlvs.insert(0 if not shuffle else r.randrange(len(tlvs) + 1), rw.enc_mp_unreach(f[0], f[1], ns, f in ap, fe))
        intent['withdraw'] += ns
    body = rw.enc_update_body(withdrawn, b''.join(tlvs), nlri)
    intent['kind'] = kind
    return body, intent


# ------------------------------------------------------------------ mutation


def mutate(r: random.Random, data: bytes, n: int = 1) -> bytes:
    b = bytearray(data)
    for _ in range(n):
        if not b:
            b = bytearray(r.getrandbits(8) for _ in range(r.randrange(1, 8)))
            continue
        op = r.randrange(10)
        i = r.randrange(len(b))
        if op == 0:
            b[i] ^= 1 << r.randrange(8)
        elif op == 1:
            b[i] = r.choice([0, 1, 0x7F, 0x80, 0xFF, b[i] + 1 & 0xFF, b[i] - 1 & 0xFF])
        elif op == 2:
            del b[i : i + r.randrange(1, 9)]
        elif op == 3:
            b[i:i] = bytes(r.getrandbits(8) for _ in range(r.randrange(1, 9)))
        elif op == 4:
            b = b[:i]
        elif op == 5:
            j = r.randrange(len(b))
            lo, hi = min(i, j), max(i, j)
            b[hi:hi] = b[lo:hi][:64]  # duplicate a slice
        elif op == 6 and len(b) > 2:
            # 16 bit length style edit
            v = struct.unpack('!H', bytes(b[i : i + 2]).ljust(2, b'\0'))[0]
            v = r.choice([0, 1, v + 1 & 0xFFFF, v - 1 & 0xFFFF, 0xFFFF, len(b)])
            b[i : i + 2] = struct.pack('!H', v)
        elif op == 7:
            b += bytes(r.getrandbits(8) for _ in range(r.randrange(1, 20)))
        elif op == 8:
            b[i:i] = b[i : i + r.randrange(1, 30)] * r.randrange(2, 6)
        else:
            j = r.randrange(len(b))
            b[i], b[j] = b[j], b[i]
    return bytes(b)


# ---------------------------------------------------------------------------------------------------------------
# structure-aware value fuzzing: the framing (attribute TLV, MP_REACH header, per-family NLRI envelope) is right,
# the values inside are hostile. Reaches the value decoders of every registered family and attribute, which a
# byte-level mutation of a corpus message only reaches by luck.

ALL_FAMILIES = [(1, 1), (1, 2), (1, 4), (1, 128), (1, 5), (1, 129), (1, 132), (1, 133), (1, 134), (1, 73), (1, 85), (2, 1), (2, 2), (2, 4), (2, 128), (2, 5), (2, 129), (2, 133), (2, 134), (2, 73), (2, 85), (25, 65), (25, 70), (16388, 71), (16388, 72)]
ATTR_FLAGS = {1: 0x40, 2: 0x40, 3: 0x40, 4: 0x80, 5: 0x40, 6: 0x40, 7: 0xC0, 8: 0xC0, 9: 0x80, 10: 0x80, 14: 0x80, 15: 0x80, 16: 0xC0, 17: 0xC0, 18: 0xC0, 22: 0xC0, 23: 0xC0, 25: 0xC0, 26: 0x80, 29: 0x80, 32: 0xC0, 40: 0xC0}
SPECIAL_FLOATS = [b'\x7f\xc0\x00\x00', b'\x7f\x80\x00\x00', b'\xff\x80\x00\x00', b'\x00\x00\x00\x00', b'\x00\x00\x00\x01', b'\x7f\x7f\xff\xff', b'\xff\xff\xff\xff', b'\x80\x00\x00\x00']


def _rb(r: random.Random, n: int) -> bytes:
    t = r.random()
    if t < 0.15:
        return b'\x00' * n
    if t < 0.3:
        return b'\xff' * n
    return bytes(r.getrandbits(8) for _ in range(n))


def _lenbyte(r: random.Random, n: int) -> int:
    """a length octet describing n octets, sometimes lying"""
    t = r.random()
    if t < 0.8:
        return n & 0xFF
    return r.choice([0, 1, max(0, n - 1), n + 1, 2 * n, 255, r.randrange(256)]) & 0xFF


def hostile_nlri(r: random.Random, afi: int, safi: int) -> bytes:
    if safi in (70, 5):  # EVPN / MVPN: type, length, value
        rtype = r.choice([1, 2, 3, 4, 5, 6, 7, r.randrange(256)])
        typical = {1: 25, 2: r.choice([33, 37, 49]), 3: r.choice([17, 29]), 4: r.choice([23, 35]), 5: r.choice([34, 58])} if safi == 70 else {1: 12, 2: 12, 3: 22, 4: 30, 5: 22, 6: 22, 7: 22}
        n = typical.get(rtype, r.randrange(0, 40)) + r.choice([0, 0, 0, -1, 1, 4, 12])
        v = bytearray(_rb(r, max(0, n)))
        if v and r.random() < 0.6:  # inner length octets: source / group / ip / mac lengths
            for pos in r.sample(range(len(v)), min(len(v), r.randrange(1, 4))):
                v[pos] = r.choice([0, 32, 48, 128, 33, 255, 8, 129])
        return bytes([rtype, _lenbyte(r, len(v))]) + bytes(v)
    if safi == 85:  # MUP: architecture, route type, length
        n = r.choice([0, 9, 13, 17, 21, 25, 37, r.randrange(60)])
        v = bytearray(_rb(r, n))
        if len(v) > 8 and r.random() < 0.7:
            v[8] = r.choice([0, 24, 32, 33, 64, 128, 129, 255])
        return bytes([r.choice([1, 1, 1, 0, 2]), 0, r.choice([1, 2, 3, 4, 5, 0]), _lenbyte(r, len(v))]) + bytes(v)
    if safi in (71, 72):  # BGP-LS: type(2) length(2) [rd] protocol-id identifier(8) descriptors TLVs
        tlvs = b''
        for _ in range(r.randrange(0, 4)):
            t = r.choice([256, 257, 258, 259, 263, 264, 265, 266, 512, 513, 514, 515, 516, 517, 518, r.randrange(65536)])
            inner = b''
            for _ in range(r.randrange(0, 3)):
                v = _rb(r, r.choice([0, 1, 4, 6, 8, 16, 3]))
                inner += struct.pack('!HH', r.choice([512, 513, 514, 515, 260, 261, 262, r.randrange(1024)]), len(v) if r.random() < 0.85 else r.randrange(64)) + v
            if t not in (256, 257) or r.random() < 0.3:
                inner = _rb(r, r.choice([0, 1, 4, 5, 8, 16, 17]))
            tlvs += struct.pack('!HH', t, len(inner) if r.random() < 0.85 else r.randrange(80)) + inner
        body = (_rb(r, 8) if safi == 72 else b'') + bytes([r.choice([1, 2, 3, 4, 5, 6, 7, 0, 200])]) + _rb(r, 8) + tlvs
        return struct.pack('!HH', r.choice([1, 2, 3, 4, 6, r.randrange(16)]), len(body) if r.random() < 0.85 else r.randrange(200)) + body
    if safi in (133, 134):  # FlowSpec: length, [rd], components
        comp = b''
        for _ in range(r.randrange(0, 5)):
            t = r.choice([1, 2, 3, 4, 5, 6, 7, 8, 9, 10, 11, 12, 13, 0, 14, 200])
            if t in (1, 2):
                bits = r.choice([0, 8, 24, 32, 33, 64, 128, 129, 255])
                comp += bytes([t, bits]) + (bytes([r.choice([0, 8, bits, 200])]) if afi == 2 else b'') + _rb(r, r.choice([(bits + 7) // 8, 0, 1, 4, 16]))
            else:
                for i in range(r.randrange(1, 4)):
                    ln = r.randrange(4)
                    op = (ln << 4) | r.getrandbits(4) & 0x0F | (0x80 if r.random() < 0.4 else 0) | (r.choice([0, 0x40]))
                    comp += (bytes([t]) if i == 0 else b'') + bytes([op]) + _rb(r, 1 << ln if r.random() < 0.9 else r.randrange(5))
        comp = (_rb(r, r.choice([8, 8, 8, 3])) if safi == 134 else b'') + comp
        n = len(comp) if r.random() < 0.85 else r.randrange(300)
        return (bytes([n]) if n < 240 and r.random() < 0.9 else struct.pack('!H', 0xF000 | n & 0xFFF)) + comp
    if safi == 65:  # VPLS
        v = _rb(r, r.choice([17, 17, 17, 0, 8, 16, 18, 30]))
        return struct.pack('!H', len(v) if r.random() < 0.8 else r.randrange(40)) + v
    if safi == 132:  # RTC
        bits = r.choice([0, 32, 96, 48, 64, 97, 128, 255, 31])
        return bytes([bits]) + _rb(r, r.choice([(bits + 7) // 8, 12, 0, 4]))
    if safi == 73:  # SR policy: length, distinguisher, color, endpoint
        bits = r.choice([96, 192, 0, 64, 97, 128, 255])
        return bytes([bits]) + _rb(r, r.choice([(bits + 7) // 8, 12, 24, 0, 5]))
    # prefix style families: mask [labels] [rd] prefix
    extra = 0
    lab = b''
    if safi in (4, 128, 129):
        nl = r.choice([1, 1, 1, 2, 3, 0])
        for i in range(nl):
            lab += struct.pack('!L', (r.choice([0, 3, 16, 0x7FFFF, 0xFFFFF, 0x80000]) << 4) | (1 if (i == nl - 1 and r.random() < 0.85) else r.choice([0, 1])))[1:]
        if r.random() < 0.1:
            lab = b'\x80\x00\x00'
        extra += 8 * len(lab)
    rd = b''
    if safi in (128, 129):
        rd = struct.pack('!H', r.choice([0, 1, 2, 3, 7])) + _rb(r, 6)
        extra += 64
    maxb = 32 if afi == 1 else 128
    bits = r.choice([0, 1, 8, 24, maxb, maxb + 1, 200, r.randrange(maxb + 1)])
    mask = extra + bits
    return bytes([mask & 0xFF if r.random() < 0.9 else r.randrange(256)]) + lab + rd + _rb(r, (bits + 7) // 8 if r.random() < 0.9 else r.randrange(20))


def hostile_extcom(r: random.Random) -> bytes:
    t = r.choice([0x00, 0x01, 0x02, 0x03, 0x06, 0x40, 0x41, 0x42, 0x43, 0x80, 0x80, 0x80, 0x81, 0x82, 0x88, 0x90, r.randrange(256)])
    st = r.choice([0x02, 0x03, 0x04, 0x06, 0x06, 0x07, 0x08, 0x09, 0x0A, 0x0B, 0x0C, 0x0D, 0x00, 0x01, 0x05, r.randrange(256)])
    if t in (0x80, 0x40) and st in (0x06, 0x0C) or r.random() < 0.15:
        return bytes([t, st]) + _rb(r, 2) + r.choice(SPECIAL_FLOATS)
    return bytes([t, st]) + _rb(r, 6)


def hostile_attr(r: random.Random, asn4: bool) -> bytes:
    code = r.choice([4, 5, 6, 7, 8, 9, 10, 16, 16, 16, 17, 18, 22, 22, 23, 23, 25, 26, 29, 29, 32, 40, 40, r.choice([11, 12, 13, 19, 20, 21, 24, 27, 28, 30, 31, 33, 34, 35, 36, 37, 38, 39, 128, 255])])
    flags = ATTR_FLAGS.get(code, 0xC0)
    if code == 16:
        v = b''.join(hostile_extcom(r) for _ in range(r.randrange(1, 5)))
    elif code == 25:
        v = b''.join(bytes([r.choice([0x00, 0x40, 0x80, r.randrange(256)]), r.choice([0x02, 0x03, 0x0B, 0x0C, 0x0D, r.randrange(256)])]) + _rb(r, 18) for _ in range(r.randrange(1, 3)))
    elif code == 32:
        v = _rb(r, 12 * r.randrange(1, 4))
    elif code == 8:
        v = b''.join(r.choice([b'\xff\xff\xff\x01', b'\xff\xff\xff\x02', b'\xff\xff\xff\x03', b'\xff\xff\x00\x00', _rb(r, 4)]) for _ in range(r.randrange(1, 6)))
    elif code in (22, 23, 29, 40, 26):
        # TLV containers (PMSI: flags type label(3) id; tunnel encap: type(2) len(2) subTLVs; BGP-LS / prefix-SID: TLVs; AIGP: type len(2))
        v = b''
        if code == 22:
            v = bytes([r.getrandbits(8), r.choice([0, 1, 2, 3, 4, 5, 6, 7, 9, 10, 11, 200])]) + _rb(r, 3) + _rb(r, r.choice([0, 4, 8, 12, 16, 20, 24, 5]))
        elif code == 26:
            n = r.choice([11, 11, 3, 4, 12, 0, 65535])
            v = bytes([r.choice([1, 1, 2, 0])]) + struct.pack('!H', n) + _rb(r, r.choice([8, 8, 0, 1, 9]))
        else:
            for _ in range(r.randrange(1, 4)):
                if code == 23:
                    sub = b''
                    for _ in range(r.randrange(0, 4)):
                        st = r.choice([1, 2, 3, 4, 6, 7, 8, 9, 10, 11, 12, 13, 14, 15, 20, 128, 129, 130, 200])
                        sv = _rb(r, r.choice([0, 1, 2, 4, 6, 8, 18, 20, 3]))
                        sub += (bytes([st]) + (struct.pack('!H', len(sv)) if st >= 128 else bytes([_lenbyte(r, len(sv))])) + sv)
                    v += struct.pack('!HH', r.choice([1, 2, 7, 8, 11, 13, 15, 15, 15, 200]), len(sub) if r.random() < 0.85 else r.randrange(100)) + sub
                elif code == 40:
                    t = r.choice([1, 3, 4, 5, 6, 200])
                    if t in (5, 6):
                        sv = _rb(r, r.choice([1, 17, 18]))
                        for _ in range(r.randrange(0, 3)):
                            ssv = _rb(r, r.choice([0, 6, 20, 21, 30, 3]))
                            sv += bytes([r.choice([1, 2, 200])]) + struct.pack('!H', len(ssv) if r.random() < 0.85 else r.randrange(60)) + ssv
                    else:
                        sv = _rb(r, r.choice([7, 10, 16, 0, 3, 8]))
                    v += bytes([t]) + struct.pack('!H', len(sv) if r.random() < 0.85 else r.randrange(80)) + sv
                else:  # BGP-LS attribute TLVs
                    t = r.choice([1024, 1025, 1026, 1027, 1028, 1029, 1030, 1031, 1034, 1035, 1036, 1038, 1088, 1089, 1090, 1091, 1092, 1093, 1094, 1095, 1096, 1097, 1098, 1099, 1114, 1115, 1116, 1117, 1118, 1119, 1120, 1121, 1122, 1152, 1153, 1155, 1156, 1157, 1158, 1159, 1161, 1162, 1170, 1171, 1172, 1173, 1174, 1250, 1251, 1252, 1253, r.randrange(65536)])
                    sv = _rb(r, r.choice([0, 1, 2, 3, 4, 5, 6, 7, 8, 12, 16, 20, 32, 9]))
                    v += struct.pack('!HH', t, len(sv) if r.random() < 0.85 else r.randrange(64)) + sv
    else:
        v = _rb(r, r.choice([0, 1, 2, 3, 4, 5, 6, 7, 8, 9, 12, 16, 20]))
    return enc_attr_raw(flags, code, v)


def enc_attr_raw(flags: int, code: int, v: bytes) -> bytes:
    if len(v) > 255:
        return bytes([flags | 0x10, code]) + struct.pack('!H', len(v)) + v
    return bytes([flags & 0xEF, code, len(v)]) + v


def gen_structured(r: random.Random, asn4: bool) -> bytes:
    """an UPDATE body whose framing is right and whose values are hostile"""
    fmt = '!L' if asn4 else '!H'
    attrs = enc_attr_raw(0x40, 1, b'\x00') + enc_attr_raw(0x40, 2, bytes([2, 1]) + struct.pack(fmt, 65001))
    nlri = b''
    t = r.random()
    if t < 0.55:
        afi, safi = r.choice(ALL_FAMILIES)
        nh = r.choice([b'', _rb(r, 4), _rb(r, 16), _rb(r, 12), _rb(r, 24), _rb(r, 32), _rb(r, 5)]) if r.random() < 0.3 else {1: _rb(r, 4), 2: _rb(r, 16), 25: _rb(r, 4), 16388: _rb(r, 4)}[afi]
        if safi in (128, 129) and r.random() < 0.8:
            nh = b'\x00' * 8 + nh
        if safi in (133, 134) and r.random() < 0.8:
            nh = b''
        body = struct.pack('!HBB', afi, safi, len(nh)) + nh + b'\x00' + b''.join(hostile_nlri(r, afi, safi) for _ in range(r.randrange(1, 4)))
        if r.random() < 0.2:
            # cut at every boundary of the MP_REACH header: family, next hop length, next hop, reserved octet
            body = body[: r.choice([0, 1, 2, 3, 4, 3 + len(nh), 4 + len(nh), 5 + len(nh), r.randrange(len(body) + 1)])]
        if r.random() < 0.25:
            body = struct.pack('!HB', afi, safi) + b''.join(hostile_nlri(r, afi, safi) for _ in range(r.randrange(1, 3)))
            attrs += enc_attr_raw(0x80, 15, body)
        else:
            attrs += enc_attr_raw(0x80, 14, body)
    else:
        attrs += enc_attr_raw(0x40, 3, _rb(r, 4))
        nlri = bytes([24]) + _rb(r, 3)
    for _ in range(r.randrange(0, 3) if t < 0.55 else r.randrange(1, 4)):
        attrs += hostile_attr(r, asn4)
    return struct.pack('!H', 0) + struct.pack('!H', len(attrs)) + attrs + nlri
