"""mon - verdicts, evidence, known findings, sharded child-process runner.

A property module (vlib/props/cNN.py) defines

    PROPERTY = 'C03'
    LEVEL = 'exploration'                # evidence level
    RULE = '...'                         # how cases are generated / what makes them distinct
    ASSUMPTIONS = [...]
    REQUIRED_CLASSES = {tier: [class names that must have >0 comparisons]}  (optional)
    def plan(tier, seed) -> list[dict]   # shard descriptors (JSON-able)
    def run_shard(desc) -> dict          # executed in a child process; returns Result.to_dict()
    def finish(merged, tier, seed)       # optional: may add keys to merged['extra']

The parent runs every shard in its own subprocess (never multiprocessing.Pool), with a
SIGKILL watchdog, merges the results, classifies violations against known_findings.json by
*mechanism key*, writes evidence/<id>.json and prints the three-valued verdict.
"""

from __future__ import annotations

import hashlib
import importlib
import json
import os
import subprocess
import sys
import time
import traceback
from concurrent.futures import ThreadPoolExecutor

ROOT = os.path.dirname(os.path.dirname(os.path.abspath(__file__)))
REPO = os.environ.get('VERIF_REPO', '/repo')
PY = os.environ.get('VERIF_PYTHON', '/venv/bin/python')
KNOWN = os.path.join(ROOT, 'known_findings.json')

EXIT_HELD, EXIT_VIOLATION, EXIT_INCONCLUSIVE = 0, 1, 2


def jdefault(o):
    if isinstance(o, (bytes, bytearray, memoryview)):
        return bytes(o).hex()
    if isinstance(o, (set, frozenset)):
        return sorted(o, key=repr)
    if isinstance(o, tuple):
        return list(o)
    return repr(o)


def digest(obj) -> str:
    return hashlib.sha1(json.dumps(obj, sort_keys=True, default=jdefault).encode()).hexdigest()[:16]


class Result:
    """Accumulator used inside a shard."""

    MAX_DISTINCT = 200000

    def __init__(self) -> None:
        self.evaluations = 0
        self.classes: dict[str, int] = {}
        self.distinct: set[str] = set()
        self.violations: list[dict] = []
        self.samples: list = []
        self.reach: dict[str, int] = {}
        self.info: dict[str, int] = {}
        self.inconclusive: list[str] = []
        self.extra: dict = {}
        self._vkeys: dict[str, int] = {}

    def ok(self, cls: str, signature=None, n: int = 1) -> None:
        """one oracle comparison executed (and it agreed)"""
        self.evaluations += n
        self.classes[cls] = self.classes.get(cls, 0) + n
        if signature is not None and len(self.distinct) < self.MAX_DISTINCT:
            self.distinct.add(signature if isinstance(signature, str) else digest(signature))

    def count(self, name: str, n: int = 1) -> None:
        self.info[name] = self.info.get(name, 0) + n

    def reached(self, name: str, n: int = 1) -> None:
        self.reach[name] = self.reach.get(name, 0) + n

    def sample(self, case, limit: int = 4) -> None:
        if len(self.samples) < limit:
            self.samples.append(case)

    def violation(self, key: str, what: str, witness: dict, cls: str = '') -> None:
        """an oracle comparison executed and disagreed. `key` is the mechanism key."""
        self.evaluations += 1
        if cls:
            self.classes[cls] = self.classes.get(cls, 0) + 1
        n = self._vkeys.get(key, 0)
        self._vkeys[key] = n + 1
        if n < 3:  # keep a few witnesses per mechanism
            self.violations.append({'key': key, 'what': what, 'witness': witness, 'count': 1})
        else:
            for v in self.violations:
                if v['key'] == key:
                    v['count'] += 1
                    break

    def to_dict(self) -> dict:
        return {
            'evaluations': self.evaluations,
            'classes': self.classes,
            'distinct': sorted(self.distinct),
            'violations': self.violations,
            'samples': self.samples,
            'reach': self.reach,
            'info': self.info,
            'inconclusive': self.inconclusive,
            'extra': self.extra,
        }


def load_known() -> list[dict]:
    try:
        with open(KNOWN) as f:
            return json.load(f)
    except FileNotFoundError:
        return []


def _run_child(prop: str, desc: dict, timeout: float) -> dict:
    env = dict(os.environ)
    env['PYTHONHASHSEED'] = str(desc.get('hashseed', 0))
    env['PYTHONPATH'] = ROOT + os.pathsep + os.path.join(ROOT, '.deps') + os.pathsep + os.path.join(REPO, 'src')
    env['exabgp_log_enable'] = 'false'
    env.setdefault('EXABGP_VERIF', '1')
    env['PYTHONDONTWRITEBYTECODE'] = '1'
    t0 = time.time()
    try:
        p = subprocess.Popen(
            [PY, '-X', 'faulthandler', '-m', 'vlib.mon', '--child', prop],
            stdin=subprocess.PIPE,
            stdout=subprocess.PIPE,
            stderr=subprocess.PIPE,
            env=env,
            cwd=ROOT,
            start_new_session=True,
        )
        try:
            out, err = p.communicate(json.dumps(desc).encode(), timeout=timeout)
        except subprocess.TimeoutExpired:
            try:
                os.killpg(p.pid, 9)
            except ProcessLookupError:
                pass
            p.kill()
            out, err = p.communicate()
            return {'_failed': f'watchdog {timeout}s', 'desc': desc, 'stderr': err.decode(errors='replace')[-2000:]}
    except Exception as exc:  # pragma: no cover
        return {'_failed': f'spawn {exc!r}', 'desc': desc}
    marker = b'\n@@RESULT@@'
    i = out.rfind(marker)
    if p.returncode != 0 or i < 0:
        return {
            '_failed': f'child exit {p.returncode}',
            'desc': desc,
            'stderr': err.decode(errors='replace')[-3000:],
            'stdout': out.decode(errors='replace')[-500:],
        }
    res = json.loads(out[i + len(marker) :])
    res['_wall'] = time.time() - t0
    return res


def child_main(prop: str) -> None:
    desc = json.loads(sys.stdin.read())
    mod = importlib.import_module(f'vlib.props.{prop.lower()}')
    res = mod.run_shard(desc)
    if hasattr(res, 'to_dict'):
        res = res.to_dict()
    sys.stdout.write('\n@@RESULT@@' + json.dumps(res, default=jdefault))
    sys.stdout.flush()
    os._exit(0)  # never run exabgp atexit / lingering tasks


def merge(results: list[dict]) -> dict:
    m = {
        'evaluations': 0,
        'classes': {},
        'distinct': set(),
        'violations': [],
        'samples': [],
        'reach': {},
        'info': {},
        'inconclusive': [],
        'extra': {},
        'failed': [],
    }
    for r in results:
        if '_failed' in r:
            m['failed'].append(r)
            continue
        m['evaluations'] += r.get('evaluations', 0)
        for k in ('classes', 'reach', 'info'):
            for c, n in r.get(k, {}).items():
                m[k][c] = m[k].get(c, 0) + n
        m['distinct'].update(r.get('distinct', []))
        m['violations'].extend(r.get('violations', []))
        if len(m['samples']) < 6:
            m['samples'].extend(r.get('samples', [])[: 6 - len(m['samples'])])
        m['inconclusive'].extend(r.get('inconclusive', []))
        for k, v in r.get('extra', {}).items():
            if isinstance(v, bool):
                m['extra'][k] = bool(m['extra'].get(k, True)) and v
            elif isinstance(v, (int, float)) and isinstance(m['extra'].get(k, 0), (int, float)):
                m['extra'][k] = m['extra'].get(k, 0) + v
            elif isinstance(v, list):
                cur = m['extra'].setdefault(k, [])
                for x in v:
                    if x not in cur and len(cur) < 400:
                        cur.append(x)
            elif isinstance(v, dict):
                cur = m['extra'].setdefault(k, {})
                for kk, vv in v.items():
                    if isinstance(vv, (int, float)):
                        cur[kk] = cur.get(kk, 0) + vv
                    else:
                        cur.setdefault(kk, vv)
            else:
                m['extra'].setdefault(k, v)
    return m


def write_evidence(prop, tier, seed, level, merged, rule, assumptions, wall, nviol, known_hits, verdict):
    evdir = os.environ.get('VERIF_EVIDENCE_DIR') or os.path.join(ROOT, 'evidence')  # sensitivity runs on a broken copy write elsewhere
    os.makedirs(evdir, exist_ok=True)
    cov = {
        'evaluations': merged['evaluations'],
        'distinct_nontrivial': len(merged['distinct']),
        'rule': rule,
        'samples': merged['samples'][:6] or ['(no sample recorded)'],
        'classes': dict(sorted(merged['classes'].items())),
        'classes_hit': len([c for c, n in merged['classes'].items() if n]),
        'reach': merged['reach'],
        'info': merged['info'],
        'known_finding_hits': known_hits,
        'verdict': verdict,
        'inconclusive_reasons': merged['inconclusive'][:20],
        'failed_shards': len(merged['failed']),
    }
    cov.update(merged['extra'])
    ev = {
        'property_id': prop,
        'tier': tier,
        'seed': seed,
        'level': level,
        'coverage': cov,
        'assumptions': assumptions,
        'wall_s': round(wall, 2),
        'violations': nviol,
    }
    path = os.path.join(evdir, f'{prop}.json')
    with open(path + '.tmp', 'w') as f:
        json.dump(ev, f, indent=1, default=jdefault, sort_keys=True)
    os.replace(path + '.tmp', path)
    return path


def run_check(prop: str, tier: str, seed: int, replay: str | None = None) -> int:
    t0 = time.time()
    mod = importlib.import_module(f'vlib.props.{prop.lower()}')
    level = getattr(mod, 'LEVEL', 'exploration')
    if replay:
        with open(replay) as f:
            w = json.load(f)
        tier, seed = w.get('tier', tier), int(w.get('seed', seed))
        descs = [w['desc']] if 'desc' in w else mod.plan(tier, seed)
    else:
        descs = mod.plan(tier, seed)
    for d in descs:
        d.setdefault('tier', tier)
        d.setdefault('seed', seed)
    jobs = int(os.environ.get('VERIF_JOBS', '16'))
    timeout = float(getattr(mod, 'SHARD_TIMEOUT', {}).get(tier, 900))
    with ThreadPoolExecutor(max_workers=jobs) as ex:
        results = list(ex.map(lambda d: _run_child(prop, d, timeout), descs))
    merged = merge(results)
    if hasattr(mod, 'finish'):
        try:
            mod.finish(merged, tier, seed)
        except Exception:
            merged['inconclusive'].append('finish() raised: ' + traceback.format_exc()[-600:])

    known = [k for k in load_known() if k.get('property') == prop]
    known_keys = {k['key']: k for k in known if k.get('status') == 'known'}
    known_hits: dict[str, int] = {}
    fresh = []
    for v in merged['violations']:
        if v['key'] in known_keys:
            known_hits[v['key']] = known_hits.get(v['key'], 0) + v.get('count', 1)
        else:
            fresh.append(v)

    required = getattr(mod, 'REQUIRED_CLASSES', {}).get(tier, [])
    missing = [c for c in required if not merged['classes'].get(c)]
    if missing:
        merged['inconclusive'].append('classes never compared: ' + ','.join(missing[:12]))
    for f in merged['failed']:
        merged['inconclusive'].append('shard failed: ' + f['_failed'] + ' ' + f.get('stderr', '')[-400:].replace('\n', ' | '))
    if merged['evaluations'] == 0:
        merged['inconclusive'].append('no oracle comparison was executed')
    if len(merged['distinct']) < 2:
        merged['inconclusive'].append('fewer than 2 distinct cases')

    replay_paths = []
    if fresh:
        verdict = 'violated'
        os.makedirs(os.path.join(ROOT, 'replay', prop), exist_ok=True)
        seen = set()
        for v in fresh:
            if v['key'] in seen:
                continue
            seen.add(v['key'])
            path = os.path.join(ROOT, 'replay', prop, digest([v['key'], v['witness']]) + '.json')
            with open(path, 'w') as f:
                json.dump(
                    {'property': prop, 'tier': tier, 'seed': seed, **v},
                    f,
                    indent=1,
                    default=jdefault,
                )
            replay_paths.append((v, path))
    elif merged['inconclusive']:
        verdict = 'inconclusive'
    else:
        verdict = 'held'

    wall = time.time() - t0
    write_evidence(
        prop,
        tier,
        seed,
        level,
        merged,
        getattr(mod, 'RULE', ''),
        getattr(mod, 'ASSUMPTIONS', []),
        wall,
        len(fresh),
        known_hits,
        verdict,
    )

    for key, n in sorted(known_hits.items()):
        print(f'KNOWN-FINDING: property={prop} {known_keys[key]["what"]} [key={key} hits={n}]')
    if verdict == 'violated':
        for v, path in replay_paths:
            print(f'VIOLATION property={prop} replay={path}')
            print(f'  key={v["key"]} what={v["what"]}')
        return EXIT_VIOLATION
    if verdict == 'inconclusive':
        print(f'INCONCLUSIVE property={prop} reason={"; ".join(merged["inconclusive"])[:1500]}')
        return EXIT_INCONCLUSIVE
    print(
        f'HELD property={prop} tier={tier} seed={seed} evaluations={merged["evaluations"]} '
        f'distinct={len(merged["distinct"])} classes={len(merged["classes"])} wall={wall:.1f}s'
    )
    return EXIT_HELD


def main(argv: list[str]) -> int:
    if len(argv) >= 2 and argv[0] == '--child':
        child_main(argv[1])
        return 0
    import argparse

    ap = argparse.ArgumentParser()
    ap.add_argument('prop')
    ap.add_argument('--tier', default=os.environ.get('VERIF_TIER', 'quick'))
    ap.add_argument('--seed', type=int, default=int(os.environ.get('VERIF_SEED', '1')))
    ap.add_argument('--replay', default=None)
    a = ap.parse_args(argv)
    return run_check(a.prop.upper(), a.tier, a.seed, a.replay)


if __name__ == '__main__':
    sys.exit(main(sys.argv[1:]))
