#!/bin/bash
# run every registered check's quick tier (or $1 tier) sequentially; print one line per check
tier=${1:-quick}
for p in $(cat vlib/props/READY); do
  start=$(date +%s)
  out=$(./check $p --tier $tier 2>&1 | grep -v "WARNING\|KNOWN-FINDING" | cut -c1-300 | head -6)
  echo "$p [$(( $(date +%s) - start ))s] $out"
done
